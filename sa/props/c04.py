"""C04 - memoization and tracing never change what a parse returns (structural clauses)."""
from __future__ import annotations

import ast

from ..callgraph import CallGraph
from ..loader import AnalysisError, dotted, norm, walk_no_defs
from ..report import RuleReport
from ..rules.common import FlagSem, attr_chain, conjuncts, dominating_conditions, run_flags

LEVEL = 'other'
TECHNIQUE = ('static: cache-key dataflow rule, who-may-write/who-may-read ownership of the memo stores with checked '
             'gates and pruning predicates, effect (purity) analysis of everything reachable from the tracer, '
             'flag-confinement rule, control-dependence rule (memo settings gate only memo-store effects)')
LEVEL_TEXT = ('Decides, for all paths: the memo key of a rule invocation is built from the invoked rule and the position '
              'after whitespace skipping; the memo stores are written only by the gated store, the initialiser and the two '
              'pruners (which never drop left-recursion guards), read only by the lookup whose result is returned or '
              'raised as is; tracer code is an observer (no writes to context, state stack or cursors); trace/colour/'
              'parseinfo flags are read only by the observers. Equality of outcomes for concrete parses is not decided.')
TECHNIQUE += '; replay contract (a memo hit is returned / raised as it is, without frame or body)'
LEVEL_TEXT += ' Added clause: rule_call returns a memoized result and raises a memoized exception without opening a frame or evaluating the body.'
TECHNIQUE += '; what is memoized for a failure is what is raised (= C06.R3)'
TECHNIQUE += '; key identity: own __eq__/__ne__/__hash__ of RuleInfo / MemoKey interpreted on rule-name pairs'
LEVEL_TEXT += ' Added clause: the memo key tells rules apart whose names differ only by underscores, case or a suffix.'
TECHNIQUE += '; type of the container bound to _results (no evicting __setitem__)'
LEVEL_TEXT += ' Added clause: seeds and guards of active left recursion are never evicted.'
TECHNIQUE += '; ParserConfig.__post_init__ interpreted over setting combinations: tracing switches change no other setting'
TECHNIQUE += '; call() and rule_call() interpreted together: a failure is offered to set_furthest_exception whether computed or replayed from the memo (R11)'
LEVEL_TEXT += ' Added clause: tracing cannot switch memoization or left recursion.'
LEVEL_TEXT += " Added clauses (rounds 9-11): a rule's failure is offered as furthest failure whether it was computed or replayed from the memo."
LEVEL_NOTE = ('Trusted: dict semantics of BoundedDict eviction (only deletes); an evicted or pruned entry only makes a '
              'rule body run again because the sole reader returns/raises the stored outcome unchanged.')
EXPLANATION = ('Static analysis of /repo sources, TatSu not imported. Memo-store accesses are enumerated over the '
               'whole package and compared with an ownership table; gates and predicates are matched structurally; '
               'observer purity is computed over the call graph reachable from every Tracer implementer.')
ASSUMPTIONS = [LEVEL_NOTE]

CORE = 'tatsu.contexts.core.ParserCore'
ENGINE = 'tatsu.contexts.engine.ParserEngine'
CTX = 'tatsu.contexts.context.ParseContext'
CONTAINER_MUTATORS = {'append', 'extend', 'insert', 'remove', 'pop', 'clear', 'sort', 'reverse', 'update', 'add',
                      'discard', 'setdefault', 'popitem', '__setitem__', '__delitem__', 'appendleft', 'popleft'}


def r1_key_derivation(a, tier):
    rep = RuleReport(
        'C04.R1',
        'in ParserEngine.call the memo key handed to rule_call/recursive_call is MemoKey(position, ruleinfo) whose '
        'ruleinfo component is the invoked rule `ri` itself on every path (or the top of a call stack onto which `ri` '
        'was pushed unconditionally before), and whose position is read after next_token(ri)',
        floor=2,
    )
    call = a.p.func(f'{ENGINE}.call')
    ri = call.params[1]
    # where is the key built?
    key_sites = []
    for fn in (call, a.p.functions.get(f'{CORE}.memokey')):
        if fn is None:
            continue
        for n in walk_no_defs(fn.node):
            if isinstance(n, ast.Call) and dotted(n.func).split('.')[-1] == 'MemoKey' and len(n.args) + len(n.keywords) >= 2:
                args = {**{i: x for i, x in enumerate(n.args)}, **{k.arg: k.value for k in n.keywords}}
                key_sites.append((fn, n, args.get(0, args.get('pos')), args.get(1, args.get('ruleinfo'))))
    if not key_sites:
        raise AnalysisError('no MemoKey(...) construction found in call()/memokey()')
    direct_ok = False
    via_stack = False
    for fn, n, pos_e, ri_e in key_sites:
        e = norm(ri_e) if ri_e is not None else '?'
        if fn is call and e == ri:
            direct_ok = True
        if e in ('self.ruleinfo', 'self.callstack[-1]', 'self.states.callstack[-1]'):
            via_stack = True
        rep.add({'key_built_in': fn.qualname, 'expr': norm(n), 'ruleinfo_component': e})
    uses_helper = any(isinstance(n, ast.Call) and dotted(n.func) in ('self.memokey',) for n in walk_no_defs(call.node))
    if uses_helper or not direct_ok:
        # key comes from the call stack: require the push of ri to dominate the key computation
        def flagger(ex, fn, node, state):
            nm = dotted(node.func)
            if fn is call and nm in ('self.callstack.append', 'self.states.callstack.append') and node.args and norm(node.args[0]) == ri:
                return ('pushed',)
            if fn is call and nm == 'self.next_token':
                return ('skipped',)
            if fn is call and (nm == 'self.memokey' or nm.endswith('MemoKey')):
                out = ['keyed']
                if 'pushed' not in state:
                    out.append('key_from_caller_frame')
                if 'skipped' not in state:
                    out.append('key_before_skip')
                return tuple(out)
            return ()
        outs = run_flags(a, call, flagger)
        if via_stack and any('key_from_caller_frame' in o.state for o in outs):
            rep.fail(call.qualname, 'key-from-caller-frame',
                     f'the memo key takes its rule from the top of the call stack, but `{ri}` is pushed only under a '
                     f'condition (ri.should_trace): for a rule that is not pushed the key names the CALLER, so results of '
                     f'different rules at one position collide in the memo', call.loc)
        if any('key_before_skip' in o.state for o in outs):
            rep.fail(call.qualname, 'key-before-skip', 'the memo key position is read before next_token(ri): the key (and '
                     'parseinfo.pos) would include leading whitespace', call.loc)
        rep.add({'key_from_callstack': via_stack, 'paths': len(outs)})
    else:
        def flagger2(ex, fn, node, state):
            nm = dotted(node.func)
            if fn is call and nm == 'self.next_token':
                return ('skipped',)
            if fn is call and nm.endswith('MemoKey') and 'skipped' not in state:
                return ('key_before_skip',)
            return ()
        if any('key_before_skip' in o.state for o in run_flags(a, call, flagger2)):
            rep.fail(call.qualname, 'key-before-skip', 'the memo key position is read before next_token(ri)', call.loc)
    # the key reaches rule_call / recursive_call unchanged
    key_vars = {n.targets[0].id for n in walk_no_defs(call.node) if isinstance(n, ast.Assign) and isinstance(n.targets[0], ast.Name)
                and isinstance(n.value, ast.Call) and (dotted(n.value.func) == 'self.memokey' or dotted(n.value.func).endswith('MemoKey'))}
    for n in walk_no_defs(call.node):
        if isinstance(n, ast.Call) and dotted(n.func) in ('self.rule_call', 'self.recursive_call'):
            ok = len(n.args) >= 2 and norm(n.args[0]) == ri and isinstance(n.args[1], ast.Name) and n.args[1].id in key_vars
            rep.add({'dispatch': norm(n), 'passes_ri_and_key': ok})
            if not ok:
                rep.fail(call.qualname, f'dispatch:{norm(n)}', f'`{norm(n)}` does not pass the invoked rule and its key', call.loc)
    return rep


def _store_accesses(a, attr: str):
    """All accesses to <x>.<attr> in the package: (fn, node, kind) with kind in write/delete/mutate/read/assign/prune."""
    out = []
    for f in a.p.functions.values():
        pm = None
        for n in walk_no_defs(f.node):
            if not (isinstance(n, ast.Attribute) and n.attr == attr):
                continue
            if pm is None:
                pm = a.resolver.parents(f)
            par = pm.get(id(n))
            kind = 'read'
            if isinstance(n.ctx, ast.Store):
                kind = 'assign'
            elif isinstance(n.ctx, ast.Del):
                kind = 'delete'
            elif isinstance(par, ast.Subscript) and par.value is n:
                kind = {'Store': 'write', 'Del': 'delete'}.get(type(par.ctx).__name__, 'read')
            elif isinstance(par, ast.Attribute) and par.value is n:
                gp = pm.get(id(par))
                if isinstance(gp, ast.Call) and gp.func is par:
                    kind = 'mutate' if par.attr in CONTAINER_MUTATORS else 'read'
            elif isinstance(par, ast.Call) and n in par.args and dotted(par.func).split('.')[-1] == 'prune_dict':
                kind = 'prune'
            elif isinstance(par, (ast.Tuple, ast.List)) and isinstance(pm.get(id(par)), ast.For) and pm[id(par)].iter is par \
                    and isinstance(pm[id(par)].target, ast.Name):
                # `for cache in (self._memos, self._results): prune_dict(cache, ...)`: what the loop does to its variable it does to the store
                loop = pm[id(par)]
                sub = _name_accesses(a, f, loop.body, loop.target.id, pm)
                out.extend(sub if sub else [(f, n, 'read', par)])
                continue
            elif isinstance(par, ast.Call) and n in par.args:
                kind = 'escape'
                # handed to a private helper of the same module: the helper's parameter is the store (what it does with it counts)
                h = a.extents.helper_for_call(f, f, par) or a.extents.shared_helper_for_call(f, par)
                if h is not None:
                    params = [x.arg for x in h.node.args.args]
                    if isinstance(par.func, ast.Attribute) and h.cls is not None:
                        params = params[1:]
                    idx = par.args.index(n)
                    if idx < len(params):
                        sub = _param_accesses(a, h, params[idx])
                        if sub is not None:
                            out.extend(sub)
                            continue
            out.append((f, n, kind, par))
    return out


def _name_accesses(a, f, stmts, name: str, pm):
    """accesses made through the local NAME inside STMTS of F (a loop variable ranging over stores)"""
    out = []
    for st in stmts:
        for n in ast.walk(st):
            if not (isinstance(n, ast.Name) and n.id == name):
                continue
            par = pm.get(id(n))
            kind = 'read'
            if isinstance(n.ctx, (ast.Store, ast.Del)):
                kind = 'escape'
            elif isinstance(par, ast.Subscript) and par.value is n:
                kind = {'Store': 'write', 'Del': 'delete'}.get(type(par.ctx).__name__, 'read')
            elif isinstance(par, ast.Attribute) and par.value is n:
                gp = pm.get(id(par))
                if isinstance(gp, ast.Call) and gp.func is par:
                    kind = 'mutate' if par.attr in CONTAINER_MUTATORS else 'read'
            elif isinstance(par, ast.Call) and n in par.args and dotted(par.func).split('.')[-1] == 'prune_dict':
                kind = 'prune'
            elif isinstance(par, ast.Call) and n in par.args:
                kind = 'escape'
            out.append((f, n, kind, par))
    return out


def _param_accesses(a, h, pname: str, depth: int = 0):
    """accesses a helper makes to the store it received as parameter PNAME (same kinds as _store_accesses); None when the parameter
    is re-bound or escapes further in a way that cannot be followed"""
    out = []
    pm = a.resolver.parents(h)
    for n in walk_no_defs(h.node):
        if not (isinstance(n, ast.Name) and n.id == pname):
            continue
        if isinstance(n.ctx, (ast.Store, ast.Del)):
            return None
        par = pm.get(id(n))
        kind = 'read'
        if isinstance(par, ast.Subscript) and par.value is n:
            kind = {'Store': 'write', 'Del': 'delete'}.get(type(par.ctx).__name__, 'read')
        elif isinstance(par, ast.Attribute) and par.value is n:
            gp = pm.get(id(par))
            if isinstance(gp, ast.Call) and gp.func is par:
                kind = 'mutate' if par.attr in CONTAINER_MUTATORS else 'read'
        elif isinstance(par, ast.Call) and n in par.args and dotted(par.func).split('.')[-1] == 'prune_dict':
            kind = 'prune'
        elif isinstance(par, ast.Call) and n in par.args:
            h2 = a.extents.helper_for_call(h, h, par) or a.extents.shared_helper_for_call(h, par)
            if h2 is None or depth >= 2:
                kind = 'escape'
            else:
                ps = [x.arg for x in h2.node.args.args]
                if isinstance(par.func, ast.Attribute) and h2.cls is not None:
                    ps = ps[1:]
                i = par.args.index(n)
                sub = _param_accesses(a, h2, ps[i], depth + 1) if i < len(ps) else None
                if sub is None:
                    kind = 'escape'
                else:
                    out.extend(sub)
                    continue
        out.append((h, n, kind, par))
    return out


def r2_ownership(a, tier):
    rep = RuleReport(
        'C04.R2',
        'ownership of the memo stores: _memos is (re)bound only in _initialize_caches, written only in memoize() under '
        '`ruleinfo.memoizable and config.memoization`, pruned only by cut() (never a FailedLeftRecursion guard) and '
        'clear_recursion_errors() (only guards), read only by memo(), whose result rule_call returns or raises '
        'unchanged; _results is written only by recursive_call/save_result; BoundedDict eviction only deletes',
        floor=8,
    )
    owners = {
        '_memos': {
            f'{CORE}._initialize_caches': {'assign'},
            f'{CORE}.memoize': {'write'},
            f'{CORE}.memo': {'read'},
            f'{CORE}.cut': {'prune'},
            f'{ENGINE}.clear_recursion_errors': {'prune'},
        },
        '_results': {
            f'{CORE}._initialize_caches': {'assign'},
            f'{ENGINE}.recursive_call': {'read', 'write'},
            f'{ENGINE}.save_result': {'write'},
        },
    }
    for attr, table in owners.items():
        seen_owner = set()
        for f, n, kind, par in _store_accesses(a, attr):
            if f.module.name.startswith(('tatsu.tool', 'tatsu.boot.bootstrap', 'tatsu.boot.bootparser')):
                continue
            q = f.qualname
            rep.add({'store': attr, 'function': q, 'access': kind, 'expr': norm(par)[:70] if par is not None else attr})
            allowed = table.get(q)
            if allowed is None and kind == 'assign' and f.name == '__init__' and par is not None and isinstance(getattr(par, 'value', None), (ast.Dict, ast.Call)) \
                    and norm(par.value) in ('{}', 'dict()'):
                allowed = {'assign'}  # a declaration of the (empty) store in the constructor; whether it is created anew per parse is C06.R6's business
            if allowed is None:
                # a private helper reached only from owners of this kind of access acts on their behalf
                if a.callgraph.only_reached_through(q, {o for o, ks in table.items() if kind in ks}):
                    allowed = {kind}
            if allowed is None or kind not in allowed:
                rep.fail(q, f'{attr}:{kind}', f'`{norm(par)[:80] if par is not None else attr}` {kind}s {attr} outside its owners '
                         f'({", ".join(x.split(".")[-1] for x in table)}): an entry stored or removed here bypasses the memoizable/'
                         f'memoization gate or the guard-preserving pruners', f'{f.module.relpath}:{n.lineno}')
            else:
                seen_owner.add((q, kind))
        for q, kinds in table.items():
            a.p.func(q)
    # gate of memoize
    mz = a.p.func(f'{CORE}.memoize')
    pm = a.resolver.parents(mz)
    for n in walk_no_defs(mz.node):
        if isinstance(n, ast.Subscript) and isinstance(n.ctx, ast.Store) and norm(n.value) == 'self._memos':
            gate = {norm(c) for c in dominating_conditions(mz, pm, n)}
            ok = any(g.endswith('.memoizable') for g in gate) and any(g.endswith('config.memoization') for g in gate)
            key_ok = norm(n.slice) == mz.params[1]
            rep.add({'memoize_gate': sorted(gate), 'ok': ok, 'stores_under_its_key_param': key_ok})
            if not ok:
                rep.fail(mz.qualname, 'memoize-gate', f'the store into _memos is gated by {sorted(gate)}; required: '
                         f'<key>.ruleinfo.memoizable and self.config.memoization', mz.loc)
            if not key_ok:
                rep.fail(mz.qualname, 'memoize-key', 'memoize stores under something else than its key parameter', mz.loc)
    # pruning predicates
    wants = {f'{CORE}.cut': 'keeps-guards', f'{ENGINE}.clear_recursion_errors': 'only-guards'}
    pruners = []
    for f, _n, kind, _par in _store_accesses(a, '_memos'):
        if kind == 'prune' and f not in [x for x, _ in pruners]:
            for owner, want in wants.items():
                if a.callgraph.only_reached_through(f.qualname, {owner}):
                    pruners.append((f, want))
    if len(pruners) < 2:
        raise AnalysisError(f'pruners of _memos: found {[f.qualname for f, _ in pruners]}, expected those of cut and clear_recursion_errors')
    for fn, want in pruners:
        q = fn.qualname
        preds = [s for s in a.p.functions.values() if s.parent is fn]
        prune = [n for n in walk_no_defs(fn.node) if isinstance(n, ast.Call) and dotted(n.func).split('.')[-1] == 'prune_dict']
        for pc in prune:
            pname = norm(pc.args[1]) if len(pc.args) > 1 else '?'
            pf = next((s for s in preds if s.name == pname), None)
            if pf is None and pname in fn.module.functions:
                pf = fn.module.functions[pname]  # the predicate is a module-level function
            if pf is None:
                rep.fail(q, 'prune-predicate', f'cannot find the predicate `{pname}` of {norm(pc)}', fn.loc)
                continue
            rets = [r.value for r in walk_no_defs(pf.node) if isinstance(r, ast.Return) and r.value is not None]
            text = ' ; '.join(norm(r) for r in rets)
            vparam = pf.params[1] if len(pf.params) > 1 else 'value'
            if want == 'keeps-guards':
                ok = all(_has_conjunct(r, f'not isinstance({vparam}, FailedLeftRecursion)') for r in rets) and bool(rets)
            else:
                ok = all(norm(r) == f'isinstance({vparam}, FailedLeftRecursion)' for r in rets) and bool(rets)
            rep.add({'pruner': q, 'predicate': text, 'requirement': want, 'ok': ok})
            if not ok:
                rep.fail(q, f'prune:{want}', f'pruning predicate `{text}` of {q.split(".")[-1]}() must '
                         + ('never select a FailedLeftRecursion guard (conjunct `not isinstance(value, FailedLeftRecursion)`)'
                            if want == 'keeps-guards' else 'select exactly the FailedLeftRecursion guards'), pf.loc)
    # the reader: memo() result is returned/raised unchanged by rule_call, nothing else branches on it
    rc = a.p.func(f'{ENGINE}.rule_call')
    reads = [n for n in walk_no_defs(rc.node) if isinstance(n, ast.Assign) and isinstance(n.value, ast.Call) and dotted(n.value.func) == 'self.memo']
    all_reads = [n for n in walk_no_defs(rc.node) if isinstance(n, ast.Call) and dotted(n.func) == 'self.memo']
    if len(all_reads) != 1:
        rep.fail(rc.qualname, 'memo-read', f'rule_call reads the memo {len(all_reads)} times (expected once, first)', rc.loc)
    elif len(reads) != 1:
        rep.notes.append('rule_call consumes self.memo(key) without binding it to a local (e.g. a match statement): what happens to a hit is decided by the replay contract C04.R6')
    else:
        var = reads[0].targets[0].id if isinstance(reads[0].targets[0], ast.Name) else '?'
        first = rc.node.body[0] is reads[0] or (isinstance(rc.node.body[0], ast.Expr) and rc.node.body[1] is reads[0])
        uses = []
        ok = first
        for n in walk_no_defs(rc.node):
            if isinstance(n, ast.If) and var in [x.id for x in ast.walk(n.test) if isinstance(x, ast.Name)]:
                t = norm(n.test)
                body = norm(n.body[0]) if n.body else ''
                uses.append((t, body))
                if not ((t.startswith(f'isinstance({var}, Exception') or t.startswith(f'isinstance({var}, ParseException') or t.startswith(f'isinstance({var}, BaseException')) and body == f'raise {var}'
                        or t.startswith(f'isinstance({var}, RuleResult') and body == f'return {var}'
                        or t in (f'{var} is not None', var) and body in (f'return {var}', f'raise {var}')):
                    ok = False
        rep.add({'memo_reader': rc.qualname, 'memo_var': var, 'uses': uses, 'returned_or_raised_unchanged': ok})
        if not ok:
            rep.fail(rc.qualname, 'memo-use', f'the remembered outcome `{var}` is used for something else than being '
                     f'returned (RuleResult) or raised (exception) unchanged at the top of rule_call: {uses}', rc.loc)
    # BoundedDict: eviction only deletes, __setitem__ stores its arguments
    bd = a.p.cls('tatsu.util.boundeddict.BoundedDict')
    el = bd.methods.get('_enforce_limit')
    si = bd.methods.get('__setitem__')
    ok_el = el is not None and not any(isinstance(n, (ast.Assign, ast.AugAssign)) and any(isinstance(t, ast.Subscript) for t in getattr(n, 'targets', [getattr(n, 'target', None)]))
                                        for n in walk_no_defs(el.node))
    ok_si = si is not None and any(isinstance(n, ast.Call) and dotted(n.func) == 'super().__setitem__' and [norm(x) for x in n.args] == si.params[1:3]
                                   for n in walk_no_defs(si.node))
    rep.add({'BoundedDict._enforce_limit_only_deletes': ok_el, 'BoundedDict.__setitem__stores_its_arguments': ok_si})
    if not ok_el:
        rep.fail(bd.qualname + '._enforce_limit', 'eviction-writes', 'BoundedDict eviction does more than delete entries', bd.loc)
    if not ok_si:
        rep.fail(bd.qualname + '.__setitem__', 'setitem-args', 'BoundedDict.__setitem__ does not store (key, value) as given', bd.loc)
    return rep


def _has_conjunct(e: ast.expr, text: str) -> bool:
    conj = e.values if isinstance(e, ast.BoolOp) and isinstance(e.op, ast.And) else [e]
    return any(norm(c) == text for c in conj)


def cursor_mutators(a) -> dict[str, set[str]]:
    """Method names of Cursor implementers that (transitively, via self.m()) assign self.pos."""
    cursor = 'tatsu.input.cursor.Cursor'
    impls = [c for c in a.ct.subclasses(cursor)]
    muts: dict[str, set[str]] = {}
    for c in impls:
        ci = a.p.classes[c]
        direct = set()
        calls: dict[str, set[str]] = {}
        for name, m in ci.methods.items():
            calls[name] = set()
            for n in walk_no_defs(m.node):
                if isinstance(n, (ast.Assign, ast.AugAssign, ast.AnnAssign)):
                    tg = n.targets if isinstance(n, ast.Assign) else [n.target]
                    if any(norm(t) in ('self.pos', 'self._pos') for t in tg):
                        direct.add(name)
                if isinstance(n, ast.Call) and isinstance(n.func, ast.Attribute) and norm(n.func.value) == 'self':
                    calls[name].add(n.func.attr)
                if isinstance(n, ast.Call) and isinstance(n.func, ast.Name) and n.args and norm(n.args[0]) == 'self':
                    # module-level helper taking the cursor: matchname(self) ...
                    q = a.p.resolve(m.module.name, n.func.id)
                    hf = a.p.functions.get(q)
                    if hf is not None and any(isinstance(x, ast.Call) and isinstance(x.func, ast.Attribute) and x.func.attr in ('goto', 'move')
                                              for x in walk_no_defs(hf.node)):
                        direct.add(name)
        changed = True
        while changed:
            changed = False
            for name, cs in calls.items():
                if name not in direct and cs & direct:
                    direct.add(name)
                    changed = True
        muts[c] = direct
    return muts


def r3_observer_purity(a, tier):
    rep = RuleReport(
        'C04.R3',
        'every method of every Tracer implementer, and everything it reaches, is an observer of the parse: no '
        'attribute/subscript store on the context, the state, the call stack or a cursor; on cursors only methods that '
        'do not (transitively) assign self.pos are called (the mutator set is computed from the Cursor implementers); '
        'tracer calls in the engine are expression statements',
        floor=10,
    )
    tracer = 'tatsu.contexts.tracing.Tracer'
    muts = cursor_mutators(a)
    all_muts = set().union(*muts.values()) if muts else set()
    rep.notes.append(f'computed cursor mutators: {sorted(all_muts)}')
    if not {'goto', 'move', 'next', 'next_token'} <= all_muts:
        raise AnalysisError(f'cursor mutator computation lost the obvious mutators: {sorted(all_muts)}')
    impls = a.ct.subclasses(tracer)
    for c in impls:
        ci = a.p.classes[c]
        for name, m in ci.methods.items():
            if name == '__init__':
                continue
            ctx_names = {p for p in m.params if p == 'ctx' or (m.param_annotation(p) or '') == 'Ctx'}
            tainted = set(ctx_names)
            cursor_vars: set[str] = set()
            for n in walk_no_defs(m.node):
                if isinstance(n, ast.Assign) and isinstance(n.targets[0], ast.Name):
                    roots = {x.id for x in ast.walk(n.value) if isinstance(x, ast.Name)}
                    if roots & tainted:
                        tainted.add(n.targets[0].id)
                        if norm(n.value).endswith('.cursor'):
                            cursor_vars.add(n.targets[0].id)
            bad = []
            for n in walk_no_defs(m.node):
                if isinstance(n, (ast.Attribute, ast.Subscript)) and isinstance(n.ctx, (ast.Store, ast.Del)):
                    root = attr_chain(n.value)[0] if isinstance(n, ast.Attribute) else attr_chain(n.value)[0]
                    if root in tainted:
                        bad.append((n, f'`{norm(n)}` is written'))
                if isinstance(n, ast.Call) and isinstance(n.func, ast.Attribute):
                    chain = attr_chain(n.func)
                    if chain[0] in tainted:
                        meth = n.func.attr
                        recv_is_cursor = (len(chain) == 2 and chain[0] in cursor_vars) or (len(chain) >= 3 and chain[-2] == 'cursor')
                        if recv_is_cursor and meth in all_muts:
                            bad.append((n, f'cursor mutator `{norm(n)}` is called'))
                        elif meth in CONTAINER_MUTATORS:
                            bad.append((n, f'`{norm(n)}` mutates a container of the context'))
                        elif chain[0] in ctx_names and len(chain) == 2:
                            bad.append((n, f'`{norm(n)}` calls a method of the parse context'))
            rep.add({'observer': m.qualname, 'context_params': sorted(ctx_names), 'violations': len(bad)})
            for n, why in bad:
                rep.fail(m.qualname, f'observer:{norm(n)}', f'tracer code is not an observer: {why}; with trace on the parse '
                         f'state differs from the untraced parse', f'{m.module.relpath}:{n.lineno}')
    # tracer calls in the engine are expression statements
    n_calls = 0
    for f in a.p.functions.values():
        if not f.qualname.startswith('tatsu.contexts.'):
            continue
        pm = None
        for n in walk_no_defs(f.node):
            if isinstance(n, ast.Call) and isinstance(n.func, ast.Attribute) and attr_chain(n.func)[-2:-1] == ['tracer']:
                pm = pm or a.resolver.parents(f)
                n_calls += 1
                if not isinstance(pm.get(id(n)), ast.Expr):
                    rep.fail(f.qualname, f'tracer-value:{norm(n)}', f'the value of tracer call `{norm(n)}` is used by the engine',
                             f'{f.module.relpath}:{n.lineno}')
    rep.add({'tracer_call_sites_in_engine': n_calls})
    return rep


def r4_flag_confinement(a, tier):
    rep = RuleReport(
        'C04.R4',
        'inside the engine (tatsu/contexts, tatsu/peg, tatsu/input) the configuration flags trace, colorize, trace_* are '
        'read only by update_tracer and the Tracer implementers, and parseinfo only by make_parseinfo, which returns None '
        'first when the flag is off; set_parseinfo only stores into the node\'s parseinfo slot',
        floor=4,
    )
    trace_flags = {'trace', 'colorize', 'trace_filename', 'trace_length', 'trace_separator'}
    allowed_trace = {f'{CORE}.update_tracer'}
    tracer_impls = set(a.ct.subclasses('tatsu.contexts.tracing.Tracer'))
    for f in a.p.functions.values():
        q = f.qualname
        if not q.startswith(('tatsu.contexts.', 'tatsu.peg.', 'tatsu.input.')) or q.startswith('tatsu.peg.semantics'):
            continue
        for n in walk_no_defs(f.node):
            if isinstance(n, ast.Attribute) and isinstance(n.ctx, ast.Load) and n.attr in trace_flags | {'parseinfo'}:
                chain = attr_chain(n)
                if not any(x in ('config', 'active_config', '_config', '_active_config', 'self_config') for x in chain[:-1]):
                    continue
                in_tracer = f.cls is not None and f.cls.qualname in tracer_impls
                rep.add({'flag': n.attr, 'read_in': q})
                # a private helper that exists only for an observer (`_new_tracer(core)` of update_tracer) reads on its behalf
                on_behalf = q not in allowed_trace and not in_tracer and a.callgraph.only_reached_through(q, allowed_trace)
                if n.attr in trace_flags and not (q in allowed_trace or in_tracer or on_behalf):
                    rep.fail(q, f'flag-read:{n.attr}', f'`{norm(n)}` is read by engine code outside the observers: the parse '
                             f'can behave differently with {n.attr} on', f'{f.module.relpath}:{n.lineno}')
                if n.attr == 'parseinfo' and q not in (f'{ENGINE}.make_parseinfo',):
                    rep.fail(q, 'flag-read:parseinfo', f'`{norm(n)}` is read outside make_parseinfo', f'{f.module.relpath}:{n.lineno}')
    mp = a.p.func(f'{ENGINE}.make_parseinfo')
    first = next((s for s in mp.node.body if not (isinstance(s, ast.Expr) and isinstance(s.value, ast.Constant))), None)
    ok = (isinstance(first, ast.If) and norm(first.test) in ('not self.config.parseinfo', 'not self.active_config.parseinfo')
          and len(first.body) == 1 and isinstance(first.body[0], ast.Return)
          and (first.body[0].value is None or norm(first.body[0].value) == 'None'))
    rep.add({'make_parseinfo_returns_None_first_when_off': ok})
    if not ok:
        rep.fail(mp.qualname, 'parseinfo-gate', 'make_parseinfo does not begin with `if not self.config.parseinfo: return None`', mp.loc)
    sp = a.p.func(f'{ENGINE}.set_parseinfo')
    stores = [n for n in walk_no_defs(sp.node) if isinstance(n, (ast.Attribute, ast.Subscript)) and isinstance(n.ctx, ast.Store)]
    bad = [n for n in stores if not (isinstance(n, ast.Attribute) and n.attr == 'parseinfo')]
    calls = [n for n in walk_no_defs(sp.node) if isinstance(n, ast.Call) and isinstance(n.func, ast.Attribute)
             and n.func.attr not in ('set_parseinfo', 'make_parseinfo')]
    rep.add({'set_parseinfo_stores': [norm(n) for n in stores], 'other_calls': [norm(n) for n in calls]})
    if bad or calls:
        rep.fail(sp.qualname, 'parseinfo-side-effect', 'set_parseinfo does more than store the parseinfo on the node', sp.loc)
    return rep


MEMO_SETTINGS = {'memoization', 'prune_memos_on_cut', 'perlinememos', 'memo_cache_size'}
SIZING_FUNCTIONS = {f'{CORE}._initialize_caches'}


def _always_exits(block: list[ast.stmt]) -> bool:
    if not block:
        return False
    last = block[-1]
    if isinstance(last, (ast.Return, ast.Raise, ast.Continue, ast.Break)):
        return True
    if isinstance(last, ast.If):
        return _always_exits(last.body) and _always_exits(last.orelse)
    return False


def _dependent_region(fn, pm, node: ast.If) -> list[ast.stmt]:
    """statements whose execution depends on the outcome of the test of NODE: both branches, and - when a branch always
    leaves - everything that follows the `if` up to the end of the function or of the enclosing loop"""
    region = list(node.body) + list(node.orelse)
    if not (_always_exits(node.body) or _always_exits(node.orelse)):
        return region
    cur: ast.AST = node
    while id(cur) in pm:
        par = pm[id(cur)]
        for fld in ('body', 'orelse', 'finalbody'):
            blk = getattr(par, fld, None)
            if isinstance(blk, list) and cur in blk:
                region += blk[blk.index(cur) + 1:]
        if isinstance(par, (ast.FunctionDef, ast.AsyncFunctionDef, ast.For, ast.While)):
            break
        cur = par
    return region


def _is_memo_store(e: ast.expr, memo_names=frozenset()) -> bool:
    return norm(e).endswith('._memos') or (isinstance(e, ast.Name) and e.id in memo_names)


def _memo_only_effect(s: ast.stmt, a=None, f=None, memo_names=frozenset(), depth: int = 0) -> str | None:
    """None when statement S only touches the memo store / locals; otherwise a description of the other effect.  MEMO_NAMES are
    parameters of a private helper that received the store; calls to private helpers that themselves only touch the store they are
    given (or self._memos) are no other effect."""
    if isinstance(s, (ast.Pass, ast.FunctionDef, ast.Continue, ast.Break)):
        return None
    if isinstance(s, ast.Return):
        return None if s.value is None or isinstance(s.value, (ast.Name, ast.Constant)) else f'returns `{norm(s.value)}`'
    if isinstance(s, ast.Expr) and isinstance(s.value, ast.Constant):
        return None
    if isinstance(s, ast.Expr) and isinstance(s.value, ast.Call):
        c = s.value
        if dotted(c.func).split('.')[-1] == 'prune_dict' and c.args and _is_memo_store(c.args[0], memo_names):
            return None
        if isinstance(c.func, ast.Attribute) and _is_memo_store(c.func.value, memo_names):
            return None
        if a is not None and f is not None and depth < 3:
            h = a.extents.helper_for_call(f, f, c) or a.extents.shared_helper_for_call(f, c)
            if h is not None:
                params = [x.arg for x in h.node.args.args]
                if isinstance(c.func, ast.Attribute) and h.cls is not None:
                    params = params[1:]
                names = frozenset(p_ for p_, arg in zip(params, c.args) if _is_memo_store(arg, memo_names))
                sub = [e for st in h.node.body for e in [_memo_only_effect(st, a, h, names, depth + 1)] if e]
                if not sub:
                    return None
                return f'calls `{norm(c)[:60]}`, which {sub[0]}'
        return f'calls `{norm(c)[:60]}`'
    if isinstance(s, (ast.Assign, ast.AnnAssign)):
        targets = s.targets if isinstance(s, ast.Assign) else [s.target]
        for t in targets:
            if isinstance(t, ast.Name):
                continue
            if isinstance(t, ast.Subscript) and _is_memo_store(t.value, memo_names):
                continue
            return f'stores `{norm(t)}`'
        v = s.value
        if v is not None and any(isinstance(x, ast.Call) for x in ast.walk(v)):
            return f'evaluates `{norm(v)[:60]}`'
        return None
    if isinstance(s, ast.If):
        for x in (*s.body, *s.orelse):
            e = _memo_only_effect(x, a, f, memo_names, depth)
            if e:
                return e
        return None
    return f'executes `{norm(s)[:60]}`'


def r5_settings_gate_only_the_store(a, tier):
    rep = RuleReport(
        'C04.R5',
        'the memo settings (memoization, prune_memos_on_cut, perlinememos, memo_cache_size) decide only what is kept in the memo '
        'store: in the engine every read of one of them is the test of an `if` (or sizes the store in _initialize_caches), and every '
        'statement whose execution depends on that test - both branches and, after an early return, the rest of the function - only '
        'stores into / prunes _memos, binds locals or returns; in particular cut() records the cut (state.cutseen) and traces it on '
        'every path, whatever prune_memos_on_cut says',
        floor=2,
    )
    for f in a.p.functions.values():
        if not f.module.name.startswith(('tatsu.contexts', 'tatsu.peg', 'tatsu.input', 'tatsu.parsing')):
            continue
        reads = [n for n in walk_no_defs(f.node) if isinstance(n, ast.Attribute) and n.attr in MEMO_SETTINGS and isinstance(n.ctx, ast.Load)
                 and 'config' in norm(n.value)]
        if not reads:
            continue
        pm = a.resolver.parents(f)
        for r in reads:
            if f.qualname in SIZING_FUNCTIONS or a.callgraph.only_reached_through(f.qualname, SIZING_FUNCTIONS):  # also a private helper of the sizing function
                rep.add({'function': f.qualname, 'reads': r.attr, 'use': 'sizes the store'})
                continue
            # the enclosing `if` whose test holds the read (possibly through a local bound once)
            cur: ast.AST = r
            test_if = None
            while id(cur) in pm:
                par = pm[id(cur)]
                if isinstance(par, ast.If) and any(x is r for x in ast.walk(par.test)):
                    test_if = par
                    break
                if isinstance(par, (ast.Assign, ast.AnnAssign)) and isinstance(getattr(par, 'targets', [getattr(par, 'target', None)])[0], ast.Name):
                    nm = (par.targets[0] if isinstance(par, ast.Assign) else par.target).id
                    ifs = [n for n in walk_no_defs(f.node) if isinstance(n, ast.If) and any(isinstance(x, ast.Name) and x.id == nm for x in ast.walk(n.test))]
                    others = [n for n in walk_no_defs(f.node) if isinstance(n, ast.Name) and n.id == nm and isinstance(n.ctx, ast.Load)
                              and not any(any(x is n for x in ast.walk(i.test)) for i in ifs)]
                    if len(ifs) == 1 and not others:
                        test_if = ifs[0]
                    break
                cur = par
            if test_if is None:
                rep.add({'function': f.qualname, 'reads': r.attr, 'use': 'not a branch test'})
                rep.fail(f.qualname, f'setting-use:{r.attr}', f'`{norm(pm.get(id(r), r))[:80]}` uses the memo setting {r.attr} for something else '
                         f'than deciding whether to store/prune memos', f'{f.module.relpath}:{r.lineno}')
                continue
            region = _dependent_region(f, pm, test_if)
            effects = [(s, e) for s in region for e in [_memo_only_effect(s, a, f)] if e]
            rep.add({'function': f.qualname, 'reads': r.attr, 'test': norm(test_if.test), 'dependent_statements': len(region),
                     'other_effects': [e for _, e in effects]})
            for s_, e in effects:
                rep.fail(f.qualname, f'setting-effect:{r.attr}:{e}', f'in {f.name}() a statement that {e} runs or not depending on the memo '
                         f'setting `{norm(test_if.test)}`: the outcome of a parse then differs between settings that should only '
                         f'change what is cached', f'{f.module.relpath}:{s_.lineno}')
    return rep


def r_replay(a, tier):
    from .c01_contracts import replay_contracts
    return replay_contracts(a, 'C04.R6')


def r7_failure_memo(a, tier):
    """what is memoized for a failure is what is raised to the caller (a replayed failure behaves like the first one)"""
    from . import c06
    rep = c06.r3_failure_conversion(a, tier)
    rep.rule = 'C04.R7'
    for f in rep.findings:
        f.rule = 'C04.R7'
    rep.text = '[= C06.R3] ' + rep.text
    return rep


def r8_key_identity(a, tier):
    from ..minieval import Unsupported
    from ..modelinterp import Bound, ModelInterp, Stub
    rep = RuleReport(
        'C04.R8',
        'the memo key tells rules apart: MemoKey and RuleInfo are tuples (equal only when every field is); where either class defines '
        'its own __eq__ / __ne__, that method - interpreted on stand-in rule records - says "different" for two rules whose names differ '
        '(also when they differ only by underscores, case or a suffix: value / value_ / _value / Value / values) and for two positions, and '
        '__hash__ gives equal records equal hashes; a result stored for one rule is never replayed for another',
        floor=3,
    )
    INFOS = 'tatsu.contexts.infos'
    names = ['value', 'value_', '_value', '_value_', 'Value', 'values', 'v']

    def rec(cls_q, **kw):
        return Stub(cls_q, **kw)
    for short in ('RuleInfo', 'MemoKey'):
        q = f'{INFOS}.{short}'
        ci = a.p.classes.get(q)
        if ci is None:
            raise AnalysisError(f'C04.R8: {q} not found')
        is_tuple = any(b.split('.')[-1] in ('NamedTuple', 'tuple') for b in a.ct.bases(q)) or 'NamedTuple' in ' '.join(norm(b) for b in ci.node.bases)
        own = {m: ci.methods[m] for m in ('__eq__', '__ne__', '__hash__') if m in ci.methods}
        rep.add({'class': short, 'tuple_equality': is_tuple and '__eq__' not in own, 'own_methods': sorted(own)})
        if not is_tuple and '__eq__' not in own:
            rep.fail(q, f'identity:{short}', f'{short} is neither a tuple nor defines __eq__: two keys for the same rule and position are never equal, or '
                     f'equality is object identity', ci.loc)

        def mk(i, name, pos=0):
            common = dict(instance='I', func=f'F{i}', no_memo=False, no_stak=False, is_name=False, is_tokn=False, is_lrec=False, is_memo=True, params=(), kwparams={})
            ri = rec(f'{INFOS}.RuleInfo', name=name, **common)
            return ri if short == 'RuleInfo' else rec(q, pos=pos, ruleinfo=ri)
        pairs = [(mk(0, x), mk(1, y), f'{x} / {y}') for x in names for y in names if x != y]
        if short == 'MemoKey':
            pairs += [(mk(0, 'value', 0), mk(0, 'value', 1), 'positions 0 / 1 of the same rule')]
        for mname in ('__eq__', '__ne__'):
            fn = own.get(mname)
            if fn is None:
                continue
            for x, y, what in pairs:
                try:
                    got = ModelInterp(a).call_bound(Bound(x, fn), [y], {})
                except Unsupported as e:
                    raise AnalysisError(f'C04.R8: cannot interpret {short}.{mname}: {e}') from e
                ok = (got is False) if mname == '__eq__' else (got is True)
                rep.add({'class': short, 'method': mname, 'records': what, 'returns': repr(got), 'ok': ok})
                if not ok:
                    rep.fail(fn.qualname, f'key-identity:{short}:{mname}:{what}', f'{short}.{mname} returns {got!r} for {what}: the memo (and the left-recursion guard) '
                             f'of one is replayed for the other at the same position', fn.loc)
        fn = own.get('__hash__')
        if fn is not None:
            x, y = mk(0, 'value'), mk(0, 'value')
            try:
                hx, hy = (ModelInterp(a, {'hash': __import__('sa.modelinterp', fromlist=['Hook']).Hook(hash)}).call_bound(Bound(r, fn), [], {}) for r in (x, y))
            except Unsupported as e:
                raise AnalysisError(f'C04.R8: cannot interpret {short}.__hash__: {e}') from e
            ok = hx == hy
            rep.add({'class': short, 'method': '__hash__', 'equal_records_equal_hash': ok})
            if not ok:
                rep.fail(fn.qualname, f'key-hash:{short}', f'{short}.__hash__ differs for two equal records: no memo is ever found again', fn.loc)
    return rep


def seeds_never_evicted(a, rule_id):
    rep = RuleReport(
        rule_id,
        'the store of left-recursion seeds and guards (_results) never forgets: unlike the memo cache, whose entries may be dropped at '
        'any time (a miss only costs a re-evaluation), an entry of _results is the guard or the growing seed of a rule that is still '
        'ACTIVE - dropping it lets the rule re-enter itself without bound. Every object bound to `self._results` is a plain dict, or an '
        'instance of a class whose __setitem__ (and the helpers it calls) never removes entries',
        floor=1,
    )
    n = 0
    for f in a.p.functions.values():
        if not f.module.name.startswith('tatsu.contexts.'):
            continue
        for st in walk_no_defs(f.node):
            tgts = st.targets if isinstance(st, ast.Assign) else [st.target] if isinstance(st, ast.AnnAssign) and st.value is not None else []
            if not any(norm(t) == 'self._results' for t in tgts):
                continue
            n += 1
            v = st.value
            if isinstance(v, ast.Name):
                from ..rules.common import through_locals
                v = through_locals(f, v)
            kind, evicts = 'unknown', None
            if isinstance(v, (ast.Dict, ast.DictComp)) or (isinstance(v, ast.Call) and dotted(v.func) in ('dict', 'defaultdict', 'collections.defaultdict', 'OrderedDict')):
                kind, evicts = 'plain dict', False
            elif isinstance(v, ast.Call):
                q = a.p.resolve_expr(f.module, v.func)
                ci = a.p.classes.get(q)
                if ci is not None:
                    kind = q
                    removers = []
                    todo, seen = [m for c in a.ct.mro(q) if c in a.p.classes for n_, m in a.p.classes[c].methods.items() if n_ in ('__setitem__', 'update', 'setdefault')], set()
                    while todo:
                        m = todo.pop()
                        if m.qualname in seen:
                            continue
                        seen.add(m.qualname)
                        for x in walk_no_defs(m.node):
                            if isinstance(x, ast.Delete) or (isinstance(x, ast.Call) and isinstance(x.func, ast.Attribute) and x.func.attr in ('pop', 'popitem', 'clear')):
                                removers.append(f'{m.qualname}:{x.lineno}')
                            if isinstance(x, ast.Call) and isinstance(x.func, ast.Attribute) and isinstance(x.func.value, ast.Name) and x.func.value.id == 'self':
                                h = a.ct.lookup(q, x.func.attr)
                                if h is not None:
                                    todo.append(h)
                    evicts = bool(removers)
                    kind += f' (removes entries at {removers[:2]})' if removers else ' (never removes entries)'
            rep.add({'fn': f.qualname, 'binds_results_to': norm(st.value)[:60], 'container': kind, 'can_evict': evicts})
            if evicts is None:
                raise AnalysisError(f'{rule_id}: cannot tell what {f.qualname} binds to self._results: `{norm(st.value)[:60]}`')
            if evicts:
                rep.fail(f.qualname, 'results-evicting', f'`{norm(st)[:80]}` makes the store of left-recursion seeds and guards a container that drops entries ({kind}): the guard of '
                         f'a still-active left-recursive rule can be evicted, the rule is then entered again as if new and recurses without bound '
                         f'(RecursionError for small memo capacities)', f'{f.module.relpath}:{st.lineno}')
    if not n:
        raise AnalysisError(f'{rule_id}: no assignment to self._results found (anchor moved)')
    return rep


def r9_seeds_never_evicted(a, tier):
    return seeds_never_evicted(a, 'C04.R9')


def r10_observer_settings(a, tier):
    import itertools

    from ..minieval import Raised, Unsupported
    from ..modelinterp import Bound, Hook, ModelInterp, Stub
    rep = RuleReport(
        'C04.R10',
        'switching tracing on changes nothing a parse depends on: ParserConfig.__post_init__ (where settings are coupled: memoization '
        'off implies left recursion off, namechars imply nameguard ...), interpreted over {memoization, left_recursion, nameguard, '
        'ignorecase} x {trace, colorize} on and off, leaves every setting other than the tracing ones at the value it has with tracing off '
        '- a coupling from `trace` to memoization would, through the memoization -> left_recursion coupling, make a left-recursive grammar '
        'fail exactly when it is traced',
        floor=16,
    )
    PC = 'tatsu.config.ParserConfig'
    fn = a.ct.lookup(PC, '__post_init__')
    if fn is None:
        raise AnalysisError('C04.R10: ParserConfig.__post_init__ not found')
    observers = ('trace', 'colorize')
    observer_fields = {'trace', 'colorize', 'trace_length', 'trace_separator', 'trace_filename', 'tracer'}

    def run(**settings):
        base = dict(ignorecase=False, keywords=(), memoization=True, left_recursion=True, namechars='', nameguard=None, semantics=None, trace=False, colorize=False,
                    trace_length=72, trace_separator=':', trace_filename=False, comments=None, eol_comments=None, comments_re=None, eol_comments_re=None,
                    memoize_lookaheads=None, whitespace=None, parseinfo=False, start=None, name=None, perlinememos=8, prune_memos_on_cut=True)
        base.update(settings)
        me = Stub(PC, **base)
        for h in ('_check_deprecations', '_compile_comments'):
            me._attrs[h] = Hook(lambda *x, **k: None)
        try:
            ModelInterp(a, {'warnings': Hook(None, warn=Hook(lambda *x, **k: None))}).call_bound(Bound(me, fn), [], {})
        except Raised as r:
            return f'raises {r.cls_name}'
        except Unsupported as e:
            raise AnalysisError(f'C04.R10: cannot interpret ParserConfig.__post_init__: {e}') from e
        return {k: v for k, v in me._attrs.items() if k not in observer_fields and not isinstance(v, Hook)}
    for memo, lrec, ng, ic in itertools.product((True, False), (True, False), (None, True), (False, True)):
        ref = run(memoization=memo, left_recursion=lrec, nameguard=ng, ignorecase=ic, keywords=('if',))
        for obs in itertools.product((False, True), repeat=len(observers)):
            if not any(obs):
                continue
            got = run(memoization=memo, left_recursion=lrec, nameguard=ng, ignorecase=ic, keywords=('if',), **dict(zip(observers, obs)))
            diff = {k: (ref.get(k), got.get(k)) for k in set(ref) | set(got) if ref.get(k) != got.get(k)} if isinstance(ref, dict) and isinstance(got, dict) else {'outcome': (ref, got)}
            on = [o for o, v in zip(observers, obs) if v]
            rep.add({'memoization': memo, 'left_recursion': lrec, 'nameguard': ng, 'ignorecase': ic, 'switched_on': on, 'settings_that_change': {k: list(map(repr, v)) for k, v in diff.items()}})
            if diff:
                rep.fail(fn.qualname, f'observer-coupling:{"+".join(on)}:{sorted(diff)}', f'with {on} switched on (memoization={memo}, left_recursion={lrec}) ParserConfig ends up with '
                         f'{ {k: v[1] for k, v in diff.items()} } instead of { {k: v[0] for k, v in diff.items()} }: the outcome of a parse depends on whether it is traced', fn.loc)
    return rep


def r11_failures_are_offered(a, tier):
    """the error a parse reports does not depend on whether a failure was computed or replayed from the memo"""
    from ..minieval import Obj, Raised, Unsupported
    from ..modelinterp import Bound, Hook, ModelInterp, Recorder, Stub
    rep = RuleReport(
        'C04.R11',
        'the class of the error a failed parse reports is the same with the memo on or off: the failure bound() re-raises is the FURTHEST one '
        'offered to set_furthest_exception(), so a rule\'s failure must be offered whether its body just failed or the failure was replayed '
        'from the memo. call() and rule_call(), interpreted TOGETHER on a stand-in engine (scripted body, action, memo): when the rule fails '
        'afresh and when memo() hands back a remembered failure, set_furthest_exception() receives that very failure before call() is left, '
        'and the failure is what call() raises',
        floor=2,
    )
    CTX = 'tatsu.contexts.context.ParseContext'
    fn = a.ct.lookup(CTX, 'call')
    if fn is None:
        raise AnalysisError('C04.R11: ParseContext.call not found')
    RR = 'tatsu.contexts.infos.RuleResult'
    for what, memo_hit in (('the body of the rule fails', False), ('a remembered failure is replayed from the memo', True)):
        failure = Raised('FailedToken', ast.Pass())
        offered: list = []
        gotos: list = []

        def body(ri, failure=failure):
            raise failure
        me = Stub(CTX, state=Recorder('state'), states=Recorder('states'), tracer=Recorder('tracer'), callstack=[], pos=3, heartbeat=Hook(lambda: None),
                  next_token=Hook(lambda *x: None), goto=Hook(lambda p: gotos.append(p)), set_furthest_exception=Hook(lambda e: offered.append(e)),
                  memo=Hook(lambda key, failure=failure, memo_hit=memo_hit: failure if memo_hit else None), set_left_recursion_guard=Hook(lambda key: None),
                  func_call=Hook(body), semantics_call=Hook(lambda ri, node, pos=None: node), set_parseinfo=Hook(lambda *x, **k: None), memoize=Hook(lambda key, res: None),
                  newexcept=Hook(lambda *x, **k: Raised('FailedParse', ast.Pass())), clear_left_recursion_guard=Hook(lambda key: None))
        it = ModelInterp(a, {'RuleResult': Hook(lambda node, newpos: Stub(RR, node=node, newpos=newpos), q=RR), 'MemoKey': Hook(lambda pos, ri: Obj(pos=pos, ruleinfo=ri))})
        ri = Obj(should_trace=False, is_lrec=False, is_tokn=False, is_name=False, name='r')
        try:
            it.call_bound(Bound(me, fn), [ri], {})
            out = None
        except Raised as r:
            out = r
        except Unsupported as e:
            raise AnalysisError(f'C04.R11: cannot interpret call() / rule_call(): {e}') from e
        # (where the cursor stands afterwards is not part of this obligation: the frames the failing rule opened are undone by their owners, and the
        #  `goto(pos)` of call()'s handler is redundant with that - removing it is a behaviour-preserving edit)
        ok = out is failure and any(x is failure for x in offered)
        rep.add({'scenario': what, 'raises_the_failure': out is failure, 'offered_as_furthest': any(x is failure for x in offered), 'caller_put_back_to': gotos[-1:], 'ok': ok})
        if not any(x is failure for x in offered):
            rep.fail(fn.qualname, f'failure-not-offered:{"replay" if memo_hit else "fresh"}', f'when {what}, call() is left without the failure having been offered to '
                     f'set_furthest_exception(): with the memo on, the parse reports another (earlier or later-recorded) error than with the memo off', fn.loc)
        elif not ok:
            rep.fail(fn.qualname, f'failure-path:{"replay" if memo_hit else "fresh"}', f'when {what}, call() raises {out.cls_name if out is not None else None}, not the failure itself', fn.loc)
    return rep


RULES = [r1_key_derivation, r2_ownership, r3_observer_purity, r4_flag_confinement, r5_settings_gate_only_the_store, r_replay, r7_failure_memo, r8_key_identity,
         r9_seeds_never_evicted, r10_observer_settings, r11_failures_are_offered]
