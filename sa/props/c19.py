"""C19 - the packet queue is lossless, delivers each packet once, in order (structural clauses)."""
from __future__ import annotations

import ast
import re

from ..loader import AnalysisError, dotted, norm, walk_no_defs
from ..paths import Executor, Semantics
from ..regexlang import Unsupported as RxUnsupported
from ..regexlang import compile_nfa, find_in_difference, find_in_intersection
from ..report import RuleReport

LEVEL = 'other'
TECHNIQUE = ('static: writer/reader mirror of the pack/unpack pipelines, codec injectivity conditions on replace-chains and regex '
             'substitutions (marker escaping K1, decoder token alignment K2 by NFA prefix-match queries, encoder-marker subset-of decoder-token inclusion K3), typestate of the reader '
             'offset by path-state execution with inlined context managers, exception-set agreement between unpack and receive')
LEVEL_TEXT = ('Decides from the source: pack and unpack apply mirrored stages in mirrored order; each escape layer either escapes its '
              'own marker first (K1) or is reported; the run-length decoder stays aligned with the encoder\'s tokens (K2: a pass that '
              'can match starting inside an escaped delimiter is reported); in receive() the read offset advances only past complete '
              'lines, before the line is decoded, and is never moved on a path that saw a partial line (also not by a context '
              'manager\'s exit); delivery is guarded by the seen-set; every exception unpack can raise for a corrupt line is skipped '
              'by receive. Interleavings of concurrent writers and file-system atomicity are not decided.')
TECHNIQUE += "; file-lifecycle rule (removal/atexit registration of the queue file is dominated by 'path generated here and keep off'); module-level codec regexes resolved"
LEVEL_TEXT += ' Added clause: a caller-supplied queue file is never scheduled for removal.'
TECHNIQUE += '; every receiver (generator method that decodes lines) is subject to the reader typestate; checksum contract of hashed/unhashed interpreted; queue invariants (append-only opens, record + newline, reader starts at 0 with an empty seen-set, fresh id per packet)'
LEVEL_TEXT += ' Added clauses: see technique (C19.R3 all receivers, R6, R7). The 16-bit checksum and the time-derived ids bound what any reader can detect; collisions are runtime quantities and not decided.'
TECHNIQUE += '; run-length layer interpreted exhaustively over {~, a, 1} <= 4/6 and runs next to markers (decode(encode(s)) == s)'
LEVEL_TEXT += ' Added clause: the run-length layer is lossless also on text that contains its own marker characters.'
TECHNIQUE += '; Packet.__init__ over falsy recipients and payloads'
LEVEL_TEXT += ' Added clause: a falsy payload is a payload.'
TECHNIQUE += '; reader decoding policy; resume-offset contract of receive() on a stand-in file'
LEVEL_TEXT += " Added clauses: undecodable bytes do not stop the reader; the stored offset is the file's own position."
TECHNIQUE += '; deliveries lie inside the reading loop'
TECHNIQUE += "; end-to-end interpretation of pack() -> unpack() on the JSON level for ids, recipients and payloads over the encoding's own characters (C19.R12)"
TECHNIQUE += '; delivered ids are never forgotten (R7 who-may-remove clause)'
LEVEL_TEXT += ' Added clause: offset and seen-set move one record at a time.'
LEVEL_TEXT += " Added clauses (rounds 9-11): unpack(pack(p)) == p end to end for ids, recipients and payloads over the encoding's own and control characters; delivered ids are never forgotten."
LEVEL_NOTE = 'Trusted: str.replace and re.sub scan left to right; a text-mode readline() returns a line without trailing newline only at end of file.'
EXPLANATION = ('Static analysis of /repo sources, TatSu not imported. Stage sequences are extracted from the def-use chain of the '
               'value threaded through pack/unpack; regex literals of the codecs are compiled to NFAs by the checker; receive() is '
               'executed abstractly with flags (partial line seen / offset stored).')
ASSUMPTIONS = [LEVEL_NOTE]

PKT = 'tatsu.packetz.packet'
PAIRS = {'asjson': 'fromjson', 'compact_value': 'decompact_value', 'json.dumps': 'json.loads', 'class_escape': 'class_unescape',
         'tty_escape': 'tty_unescape', 'hashed': 'unhashed'}


def _stages(fn, a=None, depth: int = 0) -> list[str]:
    """the codec stages applied to the data, in application order: statements in source order, nested calls innermost first
    along the first argument (`hashed(tty_escape(class_escape(s)))` = class_escape, tty_escape, hashed)"""
    vocab = set(PAIRS) | set(PAIRS.values())

    def chain(e) -> list[str]:
        if isinstance(e, ast.Call):
            inner = chain(e.args[0]) if e.args else []
            nm = dotted(e.func)
            if nm not in vocab and a is not None and depth < 3:
                # a private helper of the module that holds part of the pipeline: its stages, in its order
                h = a.extents.helper_for_call(fn, fn, e) or a.extents.shared_helper_for_call(fn, e)
                if h is not None:
                    return inner + _stages(h, a, depth + 1)
            return inner + ([nm] if nm in vocab else [])
        return []
    out = []
    for n in walk_no_defs(fn.node):
        v = None
        if isinstance(n, (ast.Assign, ast.AnnAssign)) and n.value is not None:
            v = n.value
        elif isinstance(n, ast.Return) and n.value is not None:
            v = n.value
        if v is not None:
            for j, nm in enumerate(chain(v)):
                out.append(((n.lineno, j), nm))
    return [s_ for _, s_ in sorted(out)]


def r1_mirror(a, tier):
    rep = RuleReport(
        'C19.R1',
        'pipeline mirror: the stages threaded through pack() (asjson, compact_value, json.dumps, class_escape, tty_escape, hashed) '
        'and through unpack() are exact mirrors in reverse order under the pair table',
        floor=6,
    )
    p, u = a.p.func(f'{PKT}.pack'), a.p.func(f'{PKT}.unpack')
    ps, us = _stages(p, a), _stages(u, a)
    us = [s for s in us if s not in ('CannotUnPacketError',)]
    want = [PAIRS.get(s, f'<no inverse of {s}>') for s in reversed(ps)]
    for i, s in enumerate(ps):
        rep.add({'pack_stage': s, 'inverse': PAIRS.get(s), 'unpack_stage': (us[len(ps) - 1 - i] if len(us) == len(ps) else None)})
    if us != want:
        rep.fail(u.qualname, 'not-mirrored', f'pack applies {ps}; its mirror is {want}; unpack applies {us}: a stage is missing, '
                 f'duplicated or out of order, so unpack(pack(p)) is not p', u.loc)
    return rep


def _replace_chain(fn):
    """[(old, new)] for a function that only applies str.replace with literal operands to its argument, as one chained expression or over several
    statements (`s = s.replace(a, b)` ... `return s.replace(c, d)`)."""
    params = [x.arg for x in fn.node.args.args]
    if not params:
        return None
    chains: dict[str, list] = {params[0]: []}

    def chain_of(e):
        calls = []
        while isinstance(e, ast.Call) and isinstance(e.func, ast.Attribute) and e.func.attr == 'replace' and len(e.args) == 2:
            try:
                calls.append((ast.literal_eval(e.args[0]), ast.literal_eval(e.args[1])))
            except Exception:  # noqa: BLE001
                return None
            e = e.func.value
        if not isinstance(e, ast.Name) or e.id not in chains:
            return None
        return chains[e.id] + list(reversed(calls))
    body = [x for x in fn.node.body if not (isinstance(x, ast.Expr) and isinstance(x.value, ast.Constant))]
    for st in body:
        if isinstance(st, ast.Assign) and len(st.targets) == 1 and isinstance(st.targets[0], ast.Name):
            c = chain_of(st.value)
            if c is None:
                return None
            chains[st.targets[0].id] = c
        elif isinstance(st, ast.Return) and st.value is not None:
            return chain_of(st.value)
        else:
            return None
    return None


def r2_codecs(a, tier):
    rep = RuleReport(
        'C19.R2',
        'codec injectivity: (K1) an escape layer written as a replace-chain introduces a marker only after escaping the '
        'character that begins the marker (otherwise a payload that already contains the marker is decoded differently); the '
        'unescape layer is the exact inverse chain; (K2) the run-length decoder stays token-aligned: no decoder pass can match '
        'starting inside an escaped delimiter produced by the encoder (NFA query over the encoder\'s token language)',
        floor=4,
    )
    for enc, dec, mod in (('class_escape', 'class_unescape', PKT), ('tty_escape', 'tty_unescape', 'tatsu.util.tty')):
        ef, df = a.p.func(f'{mod}.{enc}'), a.p.func(f'{mod}.{dec}')
        ec, dc = _replace_chain(ef), _replace_chain(df)
        if ec is None or dc is None:
            raise AnalysisError(f'{mod}.{enc}/{dec}: not a str.replace chain any more (update the codec rule)')
        if not ec or not dc:
            raise AnalysisError(f'{mod}.{enc}/{dec}: not a str.replace chain any more (the end-to-end rule C19.R12 decides what the rewritten codec does to packets)')
        markers = [new for _, new in ec]
        escaped_first = bool(ec) and all(any(old == m[0] and new == m[0] * 2 for old, new in ec[:i]) for i, (_, m) in enumerate(ec))
        rep.add({'codec': enc, 'encode_chain': ec, 'decode_chain': dc, 'markers': markers, 'K1_marker_start_escaped_first': escaped_first})
        if not escaped_first:
            m = markers[0]
            rep.fail(ef.qualname, f'K1:{m}', f'{enc} introduces the marker {m!r} without first escaping text that already contains it: a '
                     f'payload containing {m!r} (after JSON encoding) is turned into {dict(dc).get(m, "?")!r} by {dec} - the packet does '
                     f'not round-trip', ef.loc)
        inv = [(new, old) for old, new in ec]
        if sorted(set(dc)) != sorted(set((n_, o_) for n_, o_ in inv)) and not set(dc) <= set(inv):
            rep.fail(df.qualname, f'inverse:{dec}', f'{dec} applies {dc}, which is not the inverse of {enc}\'s {ec}', df.loc)
    # ---- run-length layer (compact.py)
    cm = 'tatsu.packetz.compact'
    encf, decf = a.p.func(f'{cm}.rle_encode'), a.p.func(f'{cm}.rle_decode')
    enc_reps = [n for n in walk_no_defs(encf.node) if isinstance(n, ast.Call) and isinstance(n.func, ast.Attribute) and n.func.attr == 'replace' and len(n.args) == 2]
    esc = None
    for n in enc_reps:
        try:
            old, new = ast.literal_eval(n.args[0]), ast.literal_eval(n.args[1])
        except Exception:  # noqa: BLE001
            continue
        if new == old * 2 and len(old) == 1:
            esc = old
    first_assign = next((s for s in encf.node.body if isinstance(s, ast.Assign)), None)
    k1 = esc is not None and first_assign is not None and any(x in enc_reps for x in ast.walk(first_assign))
    rep.add({'codec': 'rle_encode', 'delimiter': esc, 'K1_delimiter_doubled_first': k1})
    if not k1:
        rep.fail(encf.qualname, 'K1:rle', 'rle_encode does not begin by doubling its delimiter: literal delimiters in the text are read as markers', encf.loc)
        return rep
    d = re.escape(esc)
    # encoder tokens: ESC = dd, MARK = d c N d (c != d), LIT = [^d]
    tokens = f'(?:{d}{d}|{d}[^{d}][0-9]+{d}|[^{d}])'
    # decoder passes, in order
    modre = {nm: v.args[0].value for nm, v in a.p.module(cm).assigns.items() if isinstance(v, ast.Call) and dotted(v.func) == 're.compile'
             and v.args and isinstance(v.args[0], ast.Constant) and isinstance(v.args[0].value, str)}
    passes = []
    for n in sorted((x for x in walk_no_defs(decf.node) if isinstance(x, ast.Call)), key=lambda x: (x.lineno, x.col_offset)):
        if dotted(n.func) in ('re.compile',) and n.args and isinstance(n.args[0], ast.Constant):
            passes.append(('regex', n.args[0].value, n.lineno))
        elif isinstance(n.func, ast.Attribute) and n.func.attr in ('sub', 'subn') and isinstance(n.func.value, ast.Name) and n.func.value.id in modre:
            passes.append(('regex', modre[n.func.value.id], n.lineno))  # a regex compiled once at module level
        elif isinstance(n.func, ast.Attribute) and n.func.attr == 'replace' and len(n.args) == 2 and all(isinstance(x, ast.Constant) for x in n.args):
            passes.append(('replace', (n.args[0].value, n.args[1].value), n.lineno))
    rep.add({'codec': 'rle_decode', 'passes': [(k, v) for k, v, _ in passes]})
    if not passes:
        raise AnalysisError('rle_decode: no decoder passes found')
    kind, val, line = passes[0]
    single_pass = len(passes) == 1
    if kind == 'regex':
        try:
            r = compile_nfa(f'(?:{val})(?s:.*)')
            inside = compile_nfa(f'{d}{tokens}*')  # the text as seen from the 2nd character of an escaped delimiter
            w = find_in_intersection(r, inside)
        except RxUnsupported as e:
            raise AnalysisError(f'rle_decode: cannot decide pass 1 regex {val!r}: {e}') from e
        # K3: every marker the encoder can write is a token of the decoder (same run-character class, same count syntax)
        enc_rx = [n.args[0].value for n in walk_no_defs(encf.node) if isinstance(n, ast.Call) and dotted(n.func) == 're.compile'
                  and n.args and isinstance(n.args[0], ast.Constant) and isinstance(n.args[0].value, str)]
        enc_rx += [ast.literal_eval(v.args[0]) for nm, v in a.p.module(cm).assigns.items() if isinstance(v, ast.Call)
                   and dotted(v.func) == 're.compile' and v.args and isinstance(v.args[0], ast.Constant)
                   and any(isinstance(x, ast.Name) and x.id == nm for x in ast.walk(encf.node))]
        grp = None
        for rx_ in enc_rx:
            m_ = re.match(r'^\((\[[^\]]*\]|\.|\\?.)\)\\1\{\d+,\d*\}$', rx_)
            if m_:
                grp = m_.group(1)
        if grp is None:
            raise AnalysisError(f'rle_encode: run pattern `(<class>)\\1{{n,}}` not found among {enc_rx}')
        try:
            written = compile_nfa(f'{d}(?s:{grp})[0-9]+{d}')
            w3 = find_in_difference(written, compile_nfa(val))
        except RxUnsupported as e:
            raise AnalysisError(f'rle codec: cannot decide marker inclusion: {e}') from e
        rep.add({'encoder_run_character': grp, 'decoder_tokens': val, 'marker_written_but_not_read': w3})
        if w3 is not None:
            rep.fail(decf.qualname, f'K3:{grp}', f'rle_encode writes a marker for a run of any character matching {grp} (newline included: the '
                     f'class is applied to the whole text), but the decoder token {val!r} does not match the marker {w3!r}: a string with '
                     f'four or more such characters in a row is delivered as the marker text - the run-length layer is not lossless',
                     f'{decf.module.relpath}:{line}')
        handles_esc = f'{esc}{esc}' in val.replace('\\', '')
        rep.add({'decoder_pass_1': val, 'matches_inside_escaped_delimiter': w, 'same_pass_handles_escape': handles_esc})
        if w is not None and not (single_pass and handles_esc):
            original = (esc + w).replace(esc * 2, esc)
            rep.fail(decf.qualname, f'K2:{val}',
                     f'rle_decode expands markers with {val!r} in a pass that does not also consume the doubled delimiter {esc * 2!r}: '
                     f'scanning the encoded text {esc + w!r} (the encoding of a text containing literal delimiters) it matches '
                     f'starting INSIDE the escaped delimiter, so literal text such as {esc}a1{esc} comes back as a run - the '
                     f'run-length layer is not lossless', f'{decf.module.relpath}:{line}')
    return rep


def r3_reader(a, tier):
    rep = RuleReport(
        'C19.R3',
        'reader typestate in PacketzQueue.receive: on a path that saw a line without trailing newline (partial write) the read '
        'offset _told is not stored afterwards - neither directly nor through a helper/context-manager exit - so the next poll '
        're-reads that line from its start; for a complete line the offset is stored before the line is decoded (a corrupt line is '
        'skipped, not re-read forever); a packet is yielded only if its id is not in _seen, and the id is added before the yield',
        floor=2,
    )
    q = 'tatsu.packetz.queue.PacketzQueue'
    cls = a.p.cls(q)
    a.p.func(f'{q}.receive')
    # every synchronous receiver: a generator method of the queue that decodes lines itself
    receivers = [m for m in cls.methods.values() if any(isinstance(n, (ast.Yield, ast.YieldFrom)) for n in walk_no_defs(m.node))
                 and any(isinstance(n, ast.Call) and dotted(n.func).split('.')[-1] == 'unpack' for n in walk_no_defs(m.node))]
    for fn in sorted(receivers, key=lambda m: m.name):
        _reader_typestate(a, rep, q, cls, fn)
    return rep


def _reader_typestate(a, rep, q, cls, fn):
    told_writers = {m.name for m in cls.methods.values() if any(
        isinstance(n, (ast.Assign, ast.AugAssign)) and any(norm(t) == 'self._told' for t in (n.targets if isinstance(n, ast.Assign) else [n.target]))
        for n in walk_no_defs(m.node)) and m.name not in ('__init__', fn.name)}

    class Sem(Semantics):
        def test(self, ex, f, test, state):
            t = norm(test)
            if f is fn and 'endswith' in t and "'\\n'" in t:
                neg = t.startswith('not ')
                part, full = frozenset(state | {'partial'}), frozenset(state | {'complete'})
                return ([part], [full]) if neg else ([full], [part])
            return [state], [state]

        def stmt(self, ex, f, node, state):
            if isinstance(node, (ast.Assign, ast.AugAssign)):
                tg = node.targets if isinstance(node, ast.Assign) else [node.target]
                if any(norm(t) == 'self._told' for t in tg):
                    return self._store(state)
            if f is fn and isinstance(node, ast.Expr) and isinstance(node.value, ast.Yield):
                if 'id_added' not in state:
                    return frozenset(state | {'yield_before_seen'})
            return state

        def _store(self, state):
            flags = set(state)
            if 'partial' in flags:
                flags.add('told_after_partial')
            if 'decoded' in flags and 'complete' in flags and 'stored' not in flags:
                flags.add('store_after_decode')
            flags.add('stored')
            return frozenset(flags)

        def call(self, ex, f, node, state):
            nm = dotted(node.func)
            if nm.split('.')[-1] == 'unpack':
                extra = {'decoded'}
                if 'stored' not in state:
                    extra.add('decode_before_store')
                state = frozenset(state | extra)
            if isinstance(node.func, ast.Attribute) and norm(node.func.value) == 'self' and node.func.attr in told_writers \
                    and ex.sem.inline(ex, f, node) is None:
                # an ordinary helper call that stores _told (e.g. self.tell(q)): inline it
                target = a.p.functions[f'{q}.{node.func.attr}']
                outs = ex.run(target, state)
                return [('next' if o.kind == 'return' else 'raise', o.state, o.exc) for o in outs]
            if nm == 'self._seen.add':
                state = frozenset(state | {'id_added'})
            if f is fn and nm.endswith('readline'):
                # a new iteration: per-line flags start afresh
                state = frozenset(state - {'complete', 'stored', 'decoded', 'id_added'})
            return ex.default_call(f, node, state)

    ex = Executor(a.p, a.ct, a.resolver, Sem(), raises=a.raises)
    ex.MAX_LOOP_STATES = 400
    outs = ex.run(fn, frozenset(), hole=None)
    flags = set().union(*[o.state for o in outs]) if outs else set()
    rep.add({'fn': fn.qualname, 'helpers_that_store__told': sorted(told_writers), 'flags_seen': sorted(flags)})
    msgs = {
        'told_after_partial': 'after a line without trailing newline was seen (partial write) the read offset _told is stored again (directly, '
                              'through a helper or through the exit of a context manager): the next poll starts in the middle of that record, '
                              'reads its tail as a corrupt line and the packet is lost',
        'decode_before_store': 'a complete line is decoded before the read offset was advanced past it: a corrupt line is re-read on every poll',
        'yield_before_seen': 'a packet is yielded before its id was added to _seen: a consumer that stops early sees it again',
    }
    for fl, msg in msgs.items():
        if fl in flags:
            rep.fail(fn.qualname, fl, msg, fn.loc)
    if 'partial' not in flags:
        rep.fail(fn.qualname, 'no-partial-test', f'{fn.name}() does not test whether the line read ends with a newline: a partially written '
                 'record is decoded (and skipped as corrupt) instead of being left for the next poll, and the offset moves past it', fn.loc)
    from ..rules.common import always_exits
    def seen_test(f_):
        return any(isinstance(n, ast.If) and ('not in self._seen' in norm(n.test) or (' in self._seen' in norm(n.test) and always_exits(n.body)))
                   for n in walk_no_defs(f_.node))
    helpers = [cls.methods[c.func.attr] for n in walk_no_defs(fn.node) if isinstance(n, ast.If) for c in ast.walk(n.test)
               if isinstance(c, ast.Call) and isinstance(c.func, ast.Attribute) and norm(c.func.value) == 'self' and c.func.attr in cls.methods
               and c.func.attr.startswith('_')]
    guard = seen_test(fn) or any(seen_test(h) for h in helpers)
    rep.add({'fn': fn.qualname, 'delivery_guarded_by_seen_set': guard})
    if not guard:
        rep.fail(fn.qualname, 'no-seen-guard', 'delivery is not guarded by `id not in self._seen`', fn.loc)


def r4_exception_sets(a, tier):
    rep = RuleReport(
        'C19.R4',
        'exception-set agreement: every exception class unpack() can raise for an undecodable line (explicit raises of unpack and '
        'unhashed, including the class it wraps foreign errors into) is a subclass of a class receive() skips on',
        floor=3,
    )
    raised: dict[str, str] = {}
    scanned = []
    for q in (f'{PKT}.unpack', f'{PKT}.unhashed'):
        for f_ in a.extents.of(a.p.func(q)):  # the function and the private helpers that exist only for it (`_verify_checksum`)
            if f_ not in scanned:
                scanned.append(f_)
    for fn in scanned:
        for n in walk_no_defs(fn.node):
            if isinstance(n, ast.Raise) and isinstance(n.exc, ast.Call):
                cls = None
                for k in n.exc.keywords:
                    if k.arg == 'extype':
                        cls = a.p.resolve_expr(fn.module, k.value)
                if cls is None:
                    c = a.p.resolve_expr(fn.module, n.exc.func)
                    if c in a.p.classes:
                        cls = c
                if cls:
                    raised[cls] = f'{fn.module.relpath}:{n.lineno}'
    rc = a.p.func('tatsu.packetz.queue.PacketzQueue.receive')
    ex = Executor(a.p, a.ct, a.resolver, Semantics())
    skipped: list[str] = []
    for t in walk_no_defs(rc.node):
        if isinstance(t, ast.Try) and any(isinstance(x, ast.Call) and dotted(x.func).split('.')[-1] == 'unpack' for s in t.body for x in ast.walk(s)):
            for h in t.handlers:
                skipped += ['builtins.BaseException'] if h.type is None else ex.exc_class(rc, h.type)
    for cls, loc in sorted(raised.items()):
        ok = any(s in a.ct.mro(cls) for s in skipped)
        rep.add({'unpack_can_raise': cls.split('.')[-1], 'at': loc, 'skipped_by_receive': ok})
        if not ok:
            rep.fail(rc.qualname, f'escapes:{cls.split(".")[-1]}', f'unpack() raises {cls.split(".")[-1]} for a line it cannot decode ({loc}), '
                     f'receive() skips only {[s.split(".")[-1] for s in skipped]}: a corrupt line aborts the reader with an exception '
                     f'instead of being skipped', rc.loc)
    return rep


def r5_file_lifecycle(a, tier):
    from ..rules.common import dominating_conditions
    rep = RuleReport(
        'C19.R5',
        'a queue file another process may still read is never deleted: every deletion of a queue file (a call that reaches '
        'Path.unlink / os.remove on the queue path, directly or registered with atexit) happens only for the file the queue '
        'created for itself - the call is dominated by the test `path is None` of the constructor (an auto-generated temporary '
        'file) - never for a path the caller supplied and shares with readers',
        floor=1,
    )
    qmod = a.p.module('tatsu.packetz.queue')
    deleters = {f.name for f in a.p.functions.values() if f.module is qmod and any(
        isinstance(n, ast.Call) and isinstance(n.func, ast.Attribute) and n.func.attr in ('unlink', 'remove', 'rmtree') for n in walk_no_defs(f.node))}
    if not deleters:
        rep.notes.append('no function of tatsu.packetz.queue deletes files')
        rep.floor = 0
        return rep
    sites = 0
    for f in [f for f in a.p.functions.values() if f.module is qmod]:
        pm = a.resolver.parents(f)
        for n in walk_no_defs(f.node):
            if not isinstance(n, ast.Call):
                continue
            nm = dotted(n.func)
            target = None
            if nm.split('.')[-1] in deleters and f.name not in deleters:
                target = nm
            elif nm in ('atexit.register', 'weakref.finalize') and n.args and dotted(n.args[0]).split('.')[-1] in deleters:
                target = f'{nm}({dotted(n.args[0])})'
            if target is None:
                continue
            sites += 1
            conds = [norm(c) for c in dominating_conditions(f, pm, n)]
            own_file = any(c.replace(' ', '') in ('pathisNone',) for c in conds)
            rep.add({'deletion_site': f'{f.qualname}: {target}', 'dominating_conditions': conds, 'only_for_the_queue_own_temporary_file': own_file})
            if not own_file:
                rep.fail(f.qualname, f'deletes-shared-file:{target}', f'`{norm(n)[:70]}` arranges for the queue file to be deleted although the path '
                         f'may have been supplied by the caller (conditions: {conds or "none"}): when the sending process, or any reader, '
                         f'exits, packets whose send completed disappear for the other readers', f'{f.module.relpath}:{n.lineno}')
    rep.add({'deletion_sites': sites})
    return rep


def r6_checksum(a, tier):
    from ..minieval import Raised, Unsupported
    from ..modelinterp import Hook, ModelInterp
    rep = RuleReport(
        'C19.R6',
        'checksum contract of the line format, interpreted: unhashed(hashed(d)) is d for data with the characters the format itself uses; '
        'a line whose stored checksum differs from the checksum of its data, and a line without the checksum frame, raise a '
        'BadPacketError subclass (which receive() skips) - a corrupted or truncated line is not handed on as data',
        floor=5,
    )
    pk = 'tatsu.packetz.packet'
    hashed, unhashed = a.p.func(f'{pk}.hashed'), a.p.func(f'{pk}.unhashed')
    import re as _re
    import zlib

    def h2s(d):
        return f'{zlib.crc32(str(d).encode()) & 0xffff:04x}'

    def errp(msg, extype=None):
        raise Raised(getattr(extype, 'q', str(extype)).split('.')[-1] if extype is not None else 'Exception', ast.Pass())

    def it():
        m = ModelInterp(a, {'hash2str': Hook(h2s), 'ERROR_print': Hook(errp), 're': Hook(None, match=Hook(lambda p_, s_: _re.match(p_, s_)), error=_re.error)})
        m.methods = lambda recv, name, args, kwargs: (getattr(recv, name)(*args) if isinstance(recv, _re.Match) and name in ('group', 'groups') else NotImplemented)
        return m
    datas = ['{"a":1}', '{"a":"}"}', '{"hash":"00","data":{}}', '{}', '{"t":"~a1~"}']
    for d in datas:
        try:
            line = it().call_fn(hashed, [d])
            back, raised = None, None
            try:
                back = it().call_fn(unhashed, [line])
            except Raised as r:
                raised = r.cls_name
        except Unsupported as e:
            raise AnalysisError(f'C19.R6: cannot interpret hashed/unhashed: {e}') from e
        ok = back == d
        rep.add({'data': d, 'line': line, 'unhashed': back, 'raised': raised, 'ok': ok})
        if not ok:
            rep.fail(unhashed.qualname, f'checksum:roundtrip:{d}', f'unhashed(hashed({d!r})) gives {back!r} (raised {raised})', unhashed.loc)
    good = it().call_fn(hashed, ['{"a":1}'])
    for what, line in (('data changed', good.replace('"a":1', '"a":2')), ('checksum changed', good.replace('"hash":"', '"hash":"0', 1)),
                       ('frame cut short', good[: len(good) // 2]), ('no frame', '{"a":1}')):
        back, raised = None, None
        try:
            back = it().call_fn(unhashed, [line])
        except Raised as r:
            raised = r.cls_name
            exc = getattr(r.node, 'exc', None)
            if isinstance(exc, ast.Call):  # raise ERROR_print(msg, extype=<class>): the class that is raised
                raised = next((dotted(k.value).split('.')[-1] for k in exc.keywords if k.arg == 'extype'), raised)
        except Unsupported as e:
            raise AnalysisError(f'C19.R6: cannot interpret unhashed: {e}') from e
        ok = back is None and raised in ('BadPacketError', 'PacketHashError')
        rep.add({'corrupt_line': what, 'returns': back, 'raised': raised, 'ok': ok})
        if not ok:
            rep.fail(unhashed.qualname, f'checksum:{what}', f'unhashed on a line with {what} returns {back!r} / raises {raised}; required: a BadPacketError '
                     f'(the line must not reach the decoder as data)', unhashed.loc)
    return rep


def r7_queue_invariants(a, tier):
    from ..rules.common import through_locals
    rep = RuleReport(
        'C19.R7',
        'queue invariants: (a) the queue file is opened for writing in append mode only (no mode that truncates or rewrites: packets whose '
        'send completed stay where readers will find them) and each send writes the record followed by the line terminator the readers '
        'test for; (b) a new reader starts at offset 0 with an empty seen-set (it receives every packet already in the file); (c) every '
        'packet object gets an id of its own from the id generator when it is created (the seen-set de-duplicates by id: a constant or '
        'class-level id makes every packet after the first look like a duplicate)',
        floor=4,
    )
    q = 'tatsu.packetz.queue.PacketzQueue'
    cls = a.p.cls(q)
    opens = 0
    for m in cls.methods.values():
        for n in walk_no_defs(m.node):
            if isinstance(n, ast.Call) and isinstance(n.func, ast.Attribute) and n.func.attr == 'open' and 'path' in norm(n.func.value):
                mode = n.args[0] if n.args else next((k.value for k in n.keywords if k.arg == 'mode'), None)
                mv = mode.value if isinstance(mode, ast.Constant) else ('r' if mode is None else None)
                opens += 1
                writes = mv is None or any(c in mv for c in 'wax+')
                ok = (not writes) or (mv is not None and 'a' in mv and 'w' not in mv and '+' not in mv and 'x' not in mv)
                rep.add({'open': f'{m.name}: {norm(n)[:70]}', 'mode': mv, 'append_only_or_read': ok})
                if not ok:
                    rep.fail(m.qualname, f'open-mode:{mv}', f'{m.name}() opens the queue file with mode {mv!r}: anything but append truncates or '
                             f'overwrites records other readers have not seen', f'{m.module.relpath}:{n.lineno}')
    send = cls.methods.get('send')
    def _ends_with_newline(e) -> bool:
        e = through_locals(send, e) if send is not None else e
        if isinstance(e, ast.Constant):
            return isinstance(e.value, str) and e.value.endswith('\n')
        if isinstance(e, ast.BinOp) and isinstance(e.op, ast.Add):
            return _ends_with_newline(e.right)
        if isinstance(e, ast.JoinedStr) and e.values:
            return _ends_with_newline(e.values[-1])
        return False
    term_ok = False
    if send is not None:
        # the writer may live in a helper of send's extent
        fns = [send] + [cls.methods[c.func.attr] for c in ast.walk(send.node) if isinstance(c, ast.Call) and isinstance(c.func, ast.Attribute)
                        and norm(c.func.value) == 'self' and c.func.attr in cls.methods and c.func.attr.startswith('_')]
        for f_ in fns:
            writes = [n for n in ast.walk(f_.node) if isinstance(n, ast.Call) and isinstance(n.func, ast.Attribute) and n.func.attr in ('write', 'writelines') and n.args]
            prints = [n for n in ast.walk(f_.node) if isinstance(n, ast.Call) and dotted(n.func) == 'print' and any(k.arg == 'file' for k in n.keywords)
                      and not any(k.arg == 'end' for k in n.keywords)]
            if prints or (writes and _ends_with_newline(writes[-1].args[0])):
                term_ok = True
    rep.add({'send_writes_record_plus_newline': term_ok})
    if not term_ok:
        rep.fail(f'{q}.send', 'send-terminator', 'send() does not write `<record> + "\\n"`: readers treat a line without the terminator as a partial write and '
                 'never deliver it', send.loc if send else cls.loc)
    init = cls.methods.get('__init__')
    told = [n for n in walk_no_defs(init.node) if isinstance(n, ast.Assign) and any(norm(t) == 'self._told' for t in n.targets)] if init else []
    seen = [n for n in walk_no_defs(init.node) if isinstance(n, (ast.Assign, ast.AnnAssign)) and norm(n.targets[0] if isinstance(n, ast.Assign) else n.target) == 'self._seen'] if init else []
    ok = len(told) == 1 and isinstance(told[0].value, ast.Constant) and told[0].value.value == 0
    ok2 = len(seen) == 1 and isinstance(seen[0].value, ast.Call) and dotted(seen[0].value.func) == 'set' and not seen[0].value.args
    rep.add({'new_reader_offset_is_0': ok, 'new_reader_seen_set_empty': ok2})
    if not ok:
        rep.fail(f'{q}.__init__', 'reader-start', 'a new queue object does not start reading at offset 0: packets already in the file are never delivered to it', init.loc)
    if not ok2:
        rep.fail(f'{q}.__init__', 'reader-seen', 'a new queue object does not start with an empty set() of seen ids', init.loc)
    # (b2) delivered ids are never forgotten: the offset protects only iterators that START after it advanced; an iterator that is already open
    #      (two consumers of one queue object, receive_async) re-reads lines another iterator consumed and relies on the id set
    forget = []
    for f in a.p.functions.values():
        if f.module.name != 'tatsu.packetz.queue' or f.name == '__init__':
            continue
        for n in walk_no_defs(f.node):
            if isinstance(n, ast.Call) and isinstance(n.func, ast.Attribute) and n.func.attr in ('clear', 'discard', 'remove', 'pop', 'difference_update', 'intersection_update') \
                    and norm(n.func.value).endswith('._seen'):
                forget.append((f, n, norm(n)))
            tg = n.targets if isinstance(n, ast.Assign) else ([n.target] if isinstance(n, (ast.AugAssign, ast.AnnAssign)) else [])
            if any(norm(t).endswith('._seen') for t in tg):
                forget.append((f, n, norm(n)[:60]))
    rep.add({'delivered_ids_removed_or_rebound_in': [f'{f.qualname}: {t}' for f, _, t in forget]})
    for f, n, t in forget:
        rep.fail(f.qualname, f'seen-forgotten:{n.func.attr if isinstance(n, ast.Call) else "rebound"}', f'`{t}` in {f.name}(): ids of delivered packets are dropped; an iterator of the same '
                 f'queue object that was suspended earlier re-reads the lines after its own position and delivers those packets a second time', f'{f.module.relpath}:{n.lineno}')
    # (c) fresh ids
    wid = a.p.classes.get('tatsu.packetz.packet.WithID')
    new = wid.methods.get('__new__') if wid else None
    fresh = new is not None and any(isinstance(n, ast.Assign) and any(isinstance(t, ast.Attribute) and t.attr == 'id' for t in n.targets)
                                    and isinstance(n.value, ast.Call) and dotted(n.value.func).split('.')[-1] == 'new_id' for n in walk_no_defs(new.node))
    pkt = a.p.classes.get('tatsu.packetz.packet.Packet')
    is_sub = pkt is not None and 'tatsu.packetz.packet.WithID' in a.ct.mro('tatsu.packetz.packet.Packet')
    overridden = pkt is not None and '__new__' in pkt.methods
    rep.add({'WithID.__new__ assigns new_id() per instance': fresh, 'Packet derives from WithID': is_sub, 'Packet overrides __new__': overridden})
    if not (fresh and is_sub and not overridden):
        rep.fail('tatsu.packetz.packet.WithID.__new__', 'id-not-fresh', 'a Packet does not receive `new_id()` of its own when it is created: with a shared id the '
                 'seen-set of every reader drops all packets but the first', (new.loc if new else (wid.loc if wid else None)))
    return rep


def r8_rle_roundtrip(a, tier):
    import itertools
    import re as _re

    from ..minieval import Raised, Unsupported
    from ..modelinterp import Hook, ModelInterp
    n = 6 if tier == 'thorough' else 4
    rep = RuleReport(
        'C19.R8',
        f'the run-length layer is lossless, exhaustively over the characters the encoding itself uses: rle_encode and rle_decode, interpreted '
        f'(their regular expressions run by the re module), satisfy rle_decode(rle_encode(s)) == s for EVERY string over {{~, a, 1}} up to length {n} '
        'and for runs of 4..12 equal characters placed next to tildes, digits and marker-like text',
        floor=100,
    )
    enc, dec = a.p.func('tatsu.packetz.compact.rle_encode'), a.p.func('tatsu.packetz.compact.rle_decode')

    from ..minieval import module_constants
    consts = dict(module_constants(a.p.module('tatsu.packetz.compact')))

    def interp():
        it = ModelInterp(a, {**consts, 're': Hook(None, compile=Hook(_re.compile), sub=Hook(lambda p_, r_, s_: _re.sub(p_, it.as_callable(r_) if not isinstance(r_, str) else r_, s_)),
                                        Match=_re.Match, Pattern=_re.Pattern), 'len': Hook(len), 'int': Hook(int)})

        def methods(recv, name, args, kwargs):
            if isinstance(recv, _re.Pattern) and name == 'sub':
                repl = args[0] if isinstance(args[0], str) else it.as_callable(args[0])
                return recv.sub(repl, *args[1:])
            if isinstance(recv, _re.Pattern) and name in ('match', 'search', 'fullmatch', 'findall'):
                return getattr(recv, name)(*args)
            if isinstance(recv, _re.Match) and name in ('group', 'groups', 'start', 'end'):
                return getattr(recv, name)(*args)
            return NotImplemented
        it.methods = methods
        return it
    texts = [''.join(t) for k in range(0, n + 1) for t in itertools.product('~a1', repeat=k)]
    for r in (4, 5, 9, 10, 12):
        for ch in 'a1':
            texts += [ch * r, '~' + ch * r, ch * r + '~', '~~' + ch * r + '1', ch * r + '4~', f'~{ch}{r}~', ch * r + ch.upper() * r]
    n_bad = 0
    for t in texts:
        try:
            e = interp().call_fn(enc, [t])
            d = interp().call_fn(dec, [e])
        except Unsupported as ex:
            raise AnalysisError(f'C19.R8: cannot interpret the run-length codec on {t!r}: {ex}') from ex
        except Raised as ex:
            e, d = f'<raises {ex.cls_name}>', None
        ok = d == t
        rep.add({'text': t, 'encoded': e, 'decoded': d, 'ok': ok})
        if not ok and n_bad < 6:
            n_bad += 1
            rep.fail(enc.qualname, f'rle:{t!r}', f'rle_decode(rle_encode({t!r})) = {d!r} (encoded as {e!r}): a payload string with the characters of the encoding itself comes back '
                     f'changed', enc.loc)
    return rep


def r9_packet_fields(a, tier):
    from ..minieval import Unsupported
    from ..modelinterp import Bound, ModelInterp, Stub
    rep = RuleReport(
        'C19.R9',
        'a packet carries the recipient and the data it was built with: Packet.__init__, interpreted for every recipient in {None, "", '
        '"x"} and every payload in {None, 0, 0.0, False, "", [], {}, "v", [0], {"k": 0}}, leaves `to` and `data` reading back as the '
        'arguments (a falsy payload is a payload; only None means absent) - the serialised form is built from these attributes',
        floor=20,
    )
    PKT = 'tatsu.packetz.packet.Packet'
    init = a.ct.lookup(PKT, '__init__')
    if init is None:
        raise AnalysisError('C19.R9: Packet.__init__ not found')
    n_bad = 0
    for to in (None, '', 'x'):
        for data in (None, 0, 0.0, False, '', [], {}, 'v', [0], {'k': 0}):
            me = Stub(PKT, id='ID')
            it = ModelInterp(a)
            try:
                it.call_bound(Bound(me, init), [], {'to': to, 'data': data})
                got = (it.get_attr(me, 'to'), it.get_attr(me, 'data'))
            except Unsupported as e:
                raise AnalysisError(f'C19.R9: cannot interpret Packet.__init__: {e}') from e
            ok = got[0] == to and type(got[0]) is type(to) and got[1] == data and type(got[1]) is type(data)
            rep.add({'to': repr(to), 'data': repr(data), 'reads_back': repr(got), 'ok': ok})
            if not ok and n_bad < 6:
                n_bad += 1
                rep.fail(init.qualname, f'packet-fields:{to!r}:{data!r}', f'Packet(to={to!r}, data={data!r}) reads back as to={got[0]!r}, data={got[1]!r}: the receiver is '
                         f'handed another recipient or payload than the sender gave', init.loc)
    return rep


_TOLERANT = {'replace', 'ignore', 'surrogateescape', 'backslashreplace'}


def r10_reader_decoding(a, tier):
    rep = RuleReport(
        'C19.R10',
        'reading the queue file cannot fail on its bytes: a record cut short inside a multi-byte character, or corrupted bytes, reach the '
        'reader as undecodable input, and a text-mode reader decodes a whole block before the first line is returned - a strict decoder '
        'raises UnicodeDecodeError before the complete records in front of the damage are delivered. Every open of the queue file for '
        'reading in tatsu/packetz is binary or passes errors= with a policy that does not raise (replace / ignore / surrogateescape / '
        'backslashreplace)',
        floor=1,
    )
    n = 0
    for f in a.p.functions.values():
        if not f.module.name.startswith('tatsu.packetz.') or f.module.name.endswith(('test_packetz', '.__main__')):
            continue
        for c in walk_no_defs(f.node):
            if not (isinstance(c, ast.Call) and ((isinstance(c.func, ast.Attribute) and c.func.attr == 'open') or (isinstance(c.func, ast.Name) and c.func.id == 'open'))):
                continue
            builtin = isinstance(c.func, ast.Name)
            mode_e = (c.args[1] if builtin and len(c.args) > 1 else c.args[0] if not builtin and c.args else next((k.value for k in c.keywords if k.arg == 'mode'), None))
            if isinstance(mode_e, ast.Name) and isinstance(f.module.assigns.get(mode_e.id), ast.Constant):
                mode_e = f.module.assigns[mode_e.id]  # a module-level constant
            mode = mode_e.value if isinstance(mode_e, ast.Constant) and isinstance(mode_e.value, str) else ('r' if mode_e is None else None)
            if mode is None:
                raise AnalysisError(f'C19.R10: open() with a computed mode in {f.qualname}')
            reads = ('r' in mode or '+' in mode) and 'b' not in mode
            if not reads:
                rep.add({'fn': f.qualname, 'open': norm(c)[:70], 'text_read': False})
                continue
            n += 1
            err = next((k.value for k in c.keywords if k.arg == 'errors'), None)
            if isinstance(err, ast.Name) and isinstance(f.module.assigns.get(err.id), ast.Constant):
                err = f.module.assigns[err.id]
            policy = err.value if isinstance(err, ast.Constant) else None
            ok = policy in _TOLERANT
            rep.add({'fn': f.qualname, 'open': norm(c)[:90], 'text_read': True, 'errors_policy': policy, 'ok': ok})
            if not ok:
                rep.fail(f.qualname, f'strict-decoding:{mode}', f'`{norm(c)[:80]}` reads the queue file as text with the strict decoder (errors={policy!r}): a last record cut '
                         f'inside a multi-byte character, or a corrupted byte anywhere in the block, makes the read raise UnicodeDecodeError before the complete '
                         f'records in front of it are delivered', f'{f.module.relpath}:{c.lineno}')
    if not n:
        raise AnalysisError('C19.R10: no text-mode read of the queue file found in tatsu/packetz (anchor moved)')
    return rep


def r11_resume_offset(a, tier):
    from ..minieval import Obj, Raised, Unsupported
    from ..modelinterp import Bound, Hook, ModelInterp, Stub
    rep = RuleReport(
        'C19.R11',
        'a reader resumes where the FILE says the last complete record ended: receive(), interpreted on a stand-in file whose tell() '
        'answers differ from the number of bytes the decoded lines re-encode to (undecodable bytes are replaced by a 3-byte character, '
        'line ends may be translated), seeks to the stored offset first, leaves the stored offset at the tell() taken after the last '
        'COMPLETE line (a partial last line is not passed), and yields each decodable record once - a computed offset that drifts from '
        'the file position makes the next receive() start inside a record, which is then dropped as corrupt',
        floor=2,
    )
    q = 'tatsu.packetz.queue.PacketzQueue'
    fn = a.ct.lookup(q, 'receive')
    if fn is None:
        raise AnalysisError('C19.R11: PacketzQueue.receive not found')
    scripts = [
        ('a replaced byte in the second record, then a partial record', 10, [('A\n', 12), ('B\ufffd\n', 14), ('partial', 21)], 14, ['A', 'B\ufffd']),
        ('two complete records', 0, [('A\n', 2), ('BC\n', 5)], 5, ['A', 'BC']),
        ('only a partial record', 7, [('par', 10)], 7, []),
    ]
    for what, start, lines, want_told, want_ids in scripts:
        state = {'i': 0, 'pos': start, 'seeks': []}

        class F:
            pass
        f = F()

        def readline(*_x, state=state, lines=lines):
            if state['i'] >= len(lines):
                return ''
            ln, pos = lines[state['i']]
            state['i'] += 1
            state['pos'] = pos
            return ln

        class _CM:
            def __enter__(self_):
                return fobj

            def __exit__(self_, *x):
                return False
        fobj = Obj()
        me = Stub(q, _told=start, _seen=set(), _ensure_open=Hook(lambda *x, **k: fobj), path='P')  # a file is its own context manager
        it = ModelInterp(a, {'unpack': Hook(lambda ln, *x: Obj(id=ln.rstrip('\n'), data=ln)), 'max': Hook(max), 'len': Hook(len)})

        def methods(recv, name, args, kwargs, state=state):
            if recv is fobj:
                if name == 'seek':
                    state['seeks'].append(args[0])
                    state['pos'] = args[0]
                    return args[0]
                if name == 'readline':
                    return readline()
                if name == 'tell':
                    return state['pos']
            if isinstance(recv, str) and name == 'encode':
                return recv.encode(*args, **kwargs)
            return NotImplemented
        it.methods = methods
        try:
            got = it.call_bound(Bound(me, fn), [], {})
            got = list(got) if not isinstance(got, list) else got
        except Unsupported as e:
            raise AnalysisError(f'C19.R11: cannot interpret receive(): {e}') from e
        except Raised as r:
            got = f'raises {r.cls_name}'
        ids = [getattr(p_, 'id', None) for p_ in got] if isinstance(got, list) else got
        told = me._attrs.get('_told')
        ok = told == want_told and ids == want_ids and state['seeks'][:1] == [start]
        rep.add({'file': what, 'seeks': state['seeks'], 'stored_offset_after': told, 'tell_after_last_complete_line': want_told, 'delivered': ids, 'ok': ok})
        if not ok:
            rep.fail(fn.qualname, f'resume-offset:{what}', f'receive() on a file with {what}: seeks {state["seeks"]}, delivers {ids}, leaves the stored offset at {told}; required: seek({start}) '
                     f'first, {want_ids} delivered, the offset at {want_told} (the file position after the last complete line)', fn.loc)
    # records are handed out one at a time, from inside the reading loop: the offset and the seen-set are moved for ONE record before it is
    # delivered, so a reader that stops after any packet resumes with the next one.  A delivery after the loop (a batch) has moved both
    # for every record read, and the records the consumer did not take are never delivered again
    pm = a.resolver.parents(fn)
    loops = [n for n in walk_no_defs(fn.node) if isinstance(n, (ast.While, ast.For)) and any(
        isinstance(c, ast.Call) and isinstance(c.func, ast.Attribute) and c.func.attr in ('readline', 'readlines', '__next__') for c in ast.walk(n.test if isinstance(n, ast.While) else n.iter))]
    if not loops:
        loops = [n for n in walk_no_defs(fn.node) if isinstance(n, (ast.While, ast.For)) and any(
            isinstance(c, ast.Call) and isinstance(c.func, ast.Attribute) and c.func.attr == 'readline' for c in ast.walk(n))]
    for y in [n for n in walk_no_defs(fn.node) if isinstance(n, (ast.Yield, ast.YieldFrom))]:
        cur, inside = y, False
        while id(cur) in pm:
            cur = pm[id(cur)]
            if any(cur is lp for lp in loops):
                inside = True
        rep.add({'delivery': norm(y)[:50], 'inside_the_reading_loop': inside})
        if not inside:
            rep.fail(fn.qualname, 'delivery-after-the-loop', f'`{norm(y)[:60]}` at {fn.module.relpath}:{y.lineno} hands packets out after the reading loop has moved the resume offset and the '
                     f'seen-set for all of them: a reader that takes fewer packets than were pending never receives the rest', f'{fn.module.relpath}:{y.lineno}')
    return rep


def r12_envelope_roundtrip(a, tier):
    """pack -> unpack, end to end on the JSON level: every member of the packet (class, id, recipient, data) comes back as it went in"""
    import copy
    import json as _json
    import re as _re
    import zlib

    from ..minieval import Raised, Unsupported, module_constants
    from ..modelinterp import Hook, ModelInterp
    rep = RuleReport(
        'C19.R12',
        'the whole pipeline is lossless for every member of a packet, not only for the payload: pack() and unpack() are interpreted end to end '
        '(their own code, rle_encode / rle_decode, compact_value / decompact_value, class_escape / tty_escape and inverses, hashed / unhashed; '
        'json.dumps / loads and the regular expressions run by the standard library; asjson / fromjson - C14\'s subject - replaced by the '
        'identity on JSON values) on packets whose id, recipient and data each range over strings made of the characters the encoding itself '
        'uses ({~, a, 1} up to length 3, escaped tildes, marker-like text, runs) and over nested lists / dicts of them (also as dict KEYS): '
        'unpack(pack(p)) == p',
        floor=60,
    )
    pk = 'tatsu.packetz.packet'
    packf, unpackf = a.p.func(f'{pk}.pack'), a.p.func(f'{pk}.unpack')
    consts = {**dict(module_constants(a.p.module('tatsu.packetz.compact'))), **dict(module_constants(a.p.module(pk)))}

    def h2s(d):
        return f'{zlib.crc32(str(d).encode()) & 0xffff:04x}'

    def errp(msg, extype=None):
        raise Raised(getattr(extype, 'q', str(extype)).split('.')[-1] if extype is not None else 'Exception', ast.Pass())

    def _loads(text):
        try:
            return _json.loads(text)
        except ValueError:  # what the standard library raises for this text, the interpreted program raises
            raise Raised('ValueError', ast.Pass()) from None

    def interp():
        it = ModelInterp(a, {**consts, 'hash2str': Hook(h2s), 'ERROR_print': Hook(errp), 'asjson': Hook(copy.deepcopy), 'fromjson': Hook(lambda v: v),
                             'json': Hook(None, dumps=Hook(_json.dumps), loads=Hook(_loads)),
                             're': Hook(None, compile=Hook(_re.compile), match=Hook(lambda p_, s_, *f: _re.match(p_, s_, *f)), error=_re.error,
                                        sub=Hook(lambda p_, r_, s_: _re.sub(p_, it.as_callable(r_) if not isinstance(r_, str) else r_, s_)),
                                        Match=_re.Match, Pattern=_re.Pattern), 'len': Hook(len), 'int': Hook(int)})

        def methods(recv, name, args, kwargs):
            if isinstance(recv, _re.Pattern) and name == 'sub':
                repl = args[0] if isinstance(args[0], str) else it.as_callable(args[0])
                return recv.sub(repl, *args[1:])
            if isinstance(recv, _re.Pattern) and name in ('match', 'search', 'fullmatch', 'findall'):
                return getattr(recv, name)(*args)
            if isinstance(recv, _re.Match) and name in ('group', 'groups', 'start', 'end'):
                return getattr(recv, name)(*args)
            return NotImplemented
        it.methods = methods
        return it
    import itertools
    small = [''.join(t) for k in range(0, 4) for t in itertools.product('~a1', repeat=k)]
    nasty = ['~~', 'worker~~1', '~a4~', '~~a4~~', 'x~04~y', 'aaaa', 'aaaaaaaaaaaa~', '~aaaa', '00000007', '    indented', '1111~1', '~11111~',
             # control characters as JSON spells them (the tty layer works on the JSON TEXT): a real ESC, an ANSI sequence, other controls, a line break
             'ααααβ~~ω', 'naïve ☃ 日本語', '\x1b', '\x1b[1;31mred\x1b[0m', 'bell\x07nul\x00del\x7f', 'two\nlines', 'tab\there', 'quote"and\\backslash']
    strings = small if tier == 'thorough' else small[::3] + ['~', '~~', '~a1', 'a~1']
    strings = list(dict.fromkeys(strings + nasty))
    packets = []
    for s_ in strings:
        packets.append(('recipient', {'__class__': 'Packet', 'id': 'alpha', 'to': s_, 'data': None}))
        packets.append(('id', {'__class__': 'Packet', 'id': s_, 'to': 'w', 'data': 0}))
        packets.append(('data', {'__class__': 'Packet', 'id': 'alpha', 'to': 'w', 'data': s_}))
    for s_ in nasty:
        packets.append(('data (nested list)', {'__class__': 'Packet', 'id': 'i', 'to': 'w', 'data': [s_, [s_], {'k': s_}]}))
        packets.append(('data (dict key)', {'__class__': 'Packet', 'id': 'i', 'to': 'w', 'data': {s_: 1, 'n': {s_: [s_]}}}))
        packets.append(('all members', {'__class__': 'Packet', 'id': s_, 'to': s_, 'data': {'id': s_, 'to': s_, 'data': s_}}))
    packets.append(('no recipient', {'__class__': 'Packet', 'id': 'i', 'data': '~~'}))
    packets.append(('scalars', {'__class__': 'Packet', 'id': 'i', 'to': 'w', 'data': [0, 1.5, True, False, None, '', [], {}]}))
    n_bad = 0
    for what, pkt in packets:
        sent = copy.deepcopy(pkt)
        try:
            line = interp().call_fn(packf, [pkt])
            back = interp().call_fn(unpackf, [line])
            raised = None
        except Unsupported as e:
            raise AnalysisError(f'C19.R12: cannot interpret pack / unpack on {pkt!r}: {e}') from e
        except Raised as e:
            line, back, raised = None, None, e.cls_name
        ok = raised is None and back == sent and isinstance(line, str) and '\n' not in line
        rep.add({'member': what, 'packet': sent, 'line': line, 'unpacked_equal': ok, 'raised': raised})
        if not ok and n_bad < 8:
            n_bad += 1
            diff = [k for k in sent if not isinstance(back, dict) or back.get(k) != sent[k]] if raised is None else []
            rep.fail(packf.qualname, f'roundtrip:{what}:{_json.dumps(sent, sort_keys=True)[:60]}', f'unpack(pack(p)) != p for p = {sent!r}: ' + (
                f'raises {raised}' if raised else f'the member(s) {diff} come back as { {k: (back.get(k) if isinstance(back, dict) else back) for k in diff} }') +
                ' - a stage of the pipeline is applied to one side only, or to a different part of the packet on each side', packf.loc)
    return rep


RULES = [r1_mirror, r2_codecs, r3_reader, r4_exception_sets, r5_file_lifecycle, r6_checksum, r7_queue_invariants, r8_rle_roundtrip, r9_packet_fields, r10_reader_decoding, r11_resume_offset, r12_envelope_roundtrip]
