"""C01.R12 - from grammar text to model: the typed rules of tatsu/_tatsu.ebnf name existing model classes, and the semantic actions of
GrammarSemantics that replace the default construction build what the production says (interpreted on stand-in ASTs)."""
from __future__ import annotations

import ast
import re

from ..loader import AnalysisError
from ..minieval import Raised, Unsupported
from ..modelinterp import Bound, Hook, ModelInterp, Stub
from ..report import RuleReport

SEM = 'tatsu.peg.semantics.GrammarSemantics'
MODEL = 'tatsu.peg.base.Model'


def _conv(f):
    def g(*args):
        try:
            return f(*args)
        except ValueError:
            raise Raised('ValueError', ast.Pass()) from None
    return g


def r12_text_to_model(a, tier):
    from ..pegir import parse_ebnf
    rep = RuleReport(
        'C01.R12',
        'from grammar text to model: every class a rule of tatsu/_tatsu.ebnf names as its type exists among the grammar-model classes; the '
        'semantic actions of GrammarSemantics that override the default construction, interpreted on stand-in ASTs, build what the production '
        'says: @name/@int/@uint/@float/@bool give the meta class that prints back as that same symbol (every alternative of the production\'s '
        'regex is handled, anything else is a semantic failure); a sequence of one element is that element, longer ones a Sequence; choice gives '
        'a Choice; an empty token is refused; booleans, hex, int, float literals have their Python value; a rule name defined twice without '
        '@override, or overridden / used as base before it is defined, is a semantic failure',
        floor=20,
    )
    try:
        g = parse_ebnf((a.p.root / 'tatsu' / '_tatsu.ebnf').read_text(encoding='utf-8'))
    except Exception as e:  # noqa: BLE001
        raise AnalysisError(f'C01.R12: cannot read tatsu/_tatsu.ebnf: {e}') from e
    peg_classes = {c.split('.')[-1]: c for c in a.ct.subclasses(MODEL)} | {'Model': MODEL}
    typed = 0
    for name, r in g.rules.items():
        for p in r.params:
            if isinstance(p, str) and p[:1].isupper():
                typed += 1
                ok = p in peg_classes
                rep.add({'grammar_rule': name, 'type': p, 'is_a_model_class': ok})
                if not ok:
                    rep.fail('tatsu/_tatsu.ebnf', f'type:{name}:{p}', f'rule {name}[{p}] of the TatSu grammar names a class that is not a grammar-model class: '
                             f'compiling any grammar that uses this production fails', 'tatsu/_tatsu.ebnf')
    if typed < 25:
        rep.fail('tatsu/_tatsu.ebnf', 'types:few', f'only {typed} typed rules found in the TatSu grammar', 'tatsu/_tatsu.ebnf')

    def ctor(short):
        return Hook(lambda *args, short=short, **kw: Stub(peg_classes[short], **({'ast': args[0]} if args else {}), **kw), q=peg_classes[short])
    gmod = Hook(None, **{short: ctor(short) for short in peg_classes})

    def interp():
        return ModelInterp(a, {'g': gmod, 'WARNING_print': Hook(lambda *x, **k: None), 'literal_eval': Hook(ast.literal_eval),
                               'eval_escapes': Hook(lambda s: s), 'trim': Hook(lambda s: s)})

    cls = a.p.cls(SEM)

    def call(mname, *args, me=None):
        me = me or Stub(SEM, rulemap={}, name=None, context=None)
        try:
            return interp().call_bound(Bound(me, cls.methods[mname]), list(args), {}), None
        except Raised as r:
            return None, r.cls_name
        except Unsupported as e:
            raise AnalysisError(f'C01.R12: cannot interpret GrammarSemantics.{mname}: {e}') from e

    # --- meta
    meta_rule = g.rules.get('meta')
    alts = []
    if meta_rule is not None:
        m = re.search(r'@\(([a-z|]+)\)', repr(meta_rule.exp))
        alts = m.group(1).split('|') if m else []
    if not alts:
        rep.fail('tatsu/_tatsu.ebnf', 'meta:alternatives', 'the alternatives of the meta production could not be read from the grammar', 'tatsu/_tatsu.ebnf')
    mi = ModelInterp(a)
    for lit in alts:
        got, raised = call('meta', lit)
        printed = None
        if isinstance(got, Stub):
            try:
                printed = mi.apply(mi.get_attr(got, '_pretty'), [], {})
            except Unsupported:
                printed = '?'
        ok = isinstance(got, Stub) and printed == '@' + lit
        rep.add({'meta': '@' + lit, 'builds': got._cls.split('.')[-1] if isinstance(got, Stub) else raised, 'which_prints_as': printed, 'ok': ok})
        if not ok:
            rep.fail(cls.methods['meta'].qualname, f'meta:{lit}', f'@{lit} in a grammar builds {got._cls.split(".")[-1] if isinstance(got, Stub) else raised}, which prints as '
                     f'{printed!r}: the symbol written is not the expression that is parsed', cls.methods['meta'].loc)
    got, raised = call('meta', 'unknown')
    rep.add({'meta': 'an unknown symbol', 'raises': raised})
    if raised != 'FailedSemantics':
        rep.fail(cls.methods['meta'].qualname, 'meta:unknown', f'an unknown meta symbol gives {got!r} / raises {raised}; required FailedSemantics', cls.methods['meta'].loc)
    # --- sequence / choice / token
    e1, e2 = Stub(peg_classes['Token'], token='a'), Stub(peg_classes['Token'], token='b')
    got, raised = call('sequence', [e1])
    ok = got is e1
    rep.add({'sequence': 'of one element', 'is_that_element': ok})
    if not ok:
        rep.fail(cls.methods['sequence'].qualname, 'sequence:one', f'a sequence of one element builds {got!r} (raised {raised}); the element itself is required', cls.methods['sequence'].loc)
    got, raised = call('sequence', [e1, e2])
    ok = isinstance(got, Stub) and got._cls == peg_classes['Sequence'] and list(got._attrs.get('ast') or got._attrs.get('sequence') or []) == [e1, e2]
    rep.add({'sequence': 'of two elements', 'builds': got._cls.split('.')[-1] if isinstance(got, Stub) else raised, 'ok': ok})
    if not ok:
        rep.fail(cls.methods['sequence'].qualname, 'sequence:two', f'a sequence of two elements builds {got!r} (raised {raised})', cls.methods['sequence'].loc)
    got, raised = call('choice', [e1, e2])
    ok = isinstance(got, Stub) and got._cls == peg_classes['Choice'] and list(got._attrs.get('ast') or got._attrs.get('options') or []) == [e1, e2]
    rep.add({'choice': 'of two options', 'builds': got._cls.split('.')[-1] if isinstance(got, Stub) else raised, 'ok': ok})
    if not ok:
        rep.fail(cls.methods['choice'].qualname, 'choice', f'a choice of two options builds {got!r} (raised {raised})', cls.methods['choice'].loc)
    got, raised = call('token', 'abc')
    ok = isinstance(got, Stub) and got._cls == peg_classes['Token'] and (got._attrs.get('ast') == 'abc' or got._attrs.get('token') == 'abc')
    rep.add({'token': "'abc'", 'ok': ok})
    if not ok:
        rep.fail(cls.methods['token'].qualname, 'token', f"the token 'abc' builds {got!r} (raised {raised})", cls.methods['token'].loc)
    got, raised = call('token', '')
    rep.add({'token': 'empty', 'raises': raised})
    if raised != 'FailedSemantics':
        rep.fail(cls.methods['token'].qualname, 'token:empty', f'an empty token builds {got!r} / raises {raised}; it matches everywhere without consuming: FailedSemantics is required', cls.methods['token'].loc)
    # --- literals
    for mname, cases in (('boolean', [('true', True), ('True', True), ('yes', True), ('1', True), ('false', False), ('False', False), ('no', False), ('0', False)]),
                         ('hex', [('0x1F', 31), ('0X10', 16)]), ('int', [('12', 12), ('-3', -3)]), ('float', [('1.5', 1.5), ('-2e1', -20.0)])):
        if mname not in cls.methods:
            continue
        for text, want in cases:
            me = Stub(SEM, rulemap={})
            try:
                got = ModelInterp(a, {'int': Hook(_conv(int)), 'float': Hook(_conv(float))}).call_bound(Bound(me, cls.methods[mname]), [text], {})
                raised = None
            except Raised as r_:
                got, raised = None, r_.cls_name
            except Unsupported as e:
                raise AnalysisError(f'C01.R12: cannot interpret GrammarSemantics.{mname}: {e}') from e
            ok = got == want and type(got) is type(want)
            rep.add({'literal': f'{mname} {text!r}', 'value': repr(got), 'want': repr(want), 'ok': ok})
            if not ok:
                rep.fail(cls.methods[mname].qualname, f'literal:{mname}:{text}', f'the {mname} literal {text!r} in a grammar has the value {got!r} (raised {raised}); required {want!r}',
                         cls.methods[mname].loc)
    # --- rule names
    known = Stub(peg_classes['Rule'], name='known')
    for what, rulemap, astd, want_raise in (
        ('a new rule', {}, dict(decorators=[], name='fresh', base=None), None),
        ('a second definition without @override', {'dup': known}, dict(decorators=[], name='dup', base=None), 'FailedSemantics'),
        ('@override of a defined rule', {'dup': known}, dict(decorators=['override'], name='dup', base=None), None),
        ('@override of an undefined rule', {}, dict(decorators=['override'], name='ghost', base=None), 'FailedSemantics'),
        ('a base that is not defined', {}, dict(decorators=[], name='derived', base='ghost'), 'FailedSemantics'),
    ):
        me = Stub(SEM, rulemap=dict(rulemap))
        astobj = Hook(None, params=None, kwparams=None, exp=e1, **astd)
        got, raised = call('rule', astobj, me=me)
        ok = (raised == want_raise) if want_raise else (raised is None and isinstance(got, Stub) and me._attrs['rulemap'].get(astd['name']) is got)
        rep.add({'rule_definition': what, 'raises': raised, 'registered': isinstance(got, Stub) and me._attrs['rulemap'].get(astd['name']) is got, 'ok': ok})
        if not ok:
            rep.fail(cls.methods['rule'].qualname, f'rule-names:{what}', f'{what}: builds {got!r}, raises {raised}; required '
                     f'{want_raise or "the rule, registered under its name"}', cls.methods['rule'].loc)
    return rep
