"""C09 - whitespace, comments, nameguard, case and configuration layering (structural clauses)."""
from __future__ import annotations

import ast
import itertools

from ..loader import AnalysisError, dotted, norm, walk_no_defs
from ..minieval import MiniEval, Obj, Unsupported
from ..report import RuleReport
from ..rules.common import attr_chain, run_flags

LEVEL = 'other'
TECHNIQUE = ('static: must-pass-through placement table for whitespace skipping, finite-model interpretation of the '
             'next_token loops over the abstract alphabet {whitespace, eol comment, comment}, finite-domain interpretation '
             'of the three token matchers against an oracle, order-of-application dataflow for configuration layers')
LEVEL_TEXT = ('Decides, for all paths / all cursor implementations: each primitive of the parse context skips whitespace '
              'first or never, as the documented table says (tokens, constants, void, eof, fail, alerts, meta tokens and '
              'lower-case rule entry: yes; patterns, any-char, eol, cut, empty, upper-case rules: no); every next_token '
              'implementation consumes EVERY run over {whitespace, eol comment, comment} (exhaustive over all such runs up '
              'to length 6 of the abstract alphabet); all token matchers apply nameguard to the character after the token, '
              'only for name-like tokens, restore the position, and fold case on both sides; patterns take no case flag; '
              'configuration layers are applied in the documented order. The metamorphic relation on concrete texts is not '
              'decided.')
LEVEL_TEXT += " Added clauses (rounds 9-11): whitespace is skipped only by the functions of the placement table; token matching is positionally exact also behind characters whose case mappings change the text's length."
TECHNIQUE += '; next_token guard contract over cursor states'
TECHNIQUE += '; token matchers also interpreted on texts holding characters whose case mappings change the length of the text (C09.R2b)'
TECHNIQUE += '; who may skip: every next_token call of the engine lies in a function of the placement table or a private helper of one (R1)'
LEVEL_NOTE = ('Abstraction for the next_token model: the three skip regexes match disjoint, maximal runs (each eat_* '
              'consumes the whole run of its kind and reports whether it consumed anything).')
EXPLANATION = ('Static analysis of /repo sources, TatSu not imported. Primitives are executed abstractly with flags '
               '(skipped / touched cursor); next_token of each cursor class is interpreted by the whitelisted mini-evaluator '
               'on a model cursor over the 3-letter abstract alphabet; matcher summaries are extracted from the AST and '
               'compared between TextLinesCursor, BufferCursor and Buffer.')
ASSUMPTIONS = [LEVEL_NOTE]

CTX = 'tatsu.contexts.context.ParseContext'
CORE = 'tatsu.contexts.core.ParserCore'
ENGINE = 'tatsu.contexts.engine.ParserEngine'

SKIP = ['token', 'void', 'eofcheck', 'fail', 'alert', 'matchname', 'matchint', 'matchuint', 'matchfloat', 'matchbool']
SKIP_ENGINE = ['constant']
NOSKIP = ['pattern', 'dot', 'eolcheck', 'empty']
NOSKIP_CORE = ['cut']


def _is_next_token(call: ast.Call) -> bool:
    return dotted(call.func) in ('self.next_token', 'self.cursor.next_token', 'self.state.cursor.next_token')


def _touches_cursor(call: ast.Call) -> bool:
    chain = attr_chain(call.func)
    if _is_next_token(call):
        return False
    if 'cursor' in chain[:-1]:
        return True
    return dotted(call.func) in ('self._next', 'self.newexcept', 'self.state.append', 'self.eof', 'self.eol')


def r1_placement(a, tier):
    rep = RuleReport(
        'C09.R1',
        'whitespace placement table: in token, constant, void, eofcheck, fail, alert and the meta matchers every path calls '
        'next_token() before it reads the cursor, raises or appends; pattern, dot, eolcheck, cut and empty never call '
        'next_token(); call() and rule_call() skip through next_token(ri), which skips unless ri.is_tokn; is_tokn is derived '
        'from the first cased character of the rule name in Rule.__post_init__ and RuleInfo.new alike',
        floor=18,
    )

    def flagger(ex, fn, node, state):
        if _is_next_token(node):
            return ('skipped',)
        if _touches_cursor(node) and 'skipped' not in state:
            return ('touch_before_skip',)
        return ()

    for cls, names in ((CTX, SKIP), (ENGINE, SKIP_ENGINE)):
        for name in names:
            fn = a.p.func(f'{cls}.{name}')
            outs = run_flags(a, fn, flagger)
            bad_touch = any('touch_before_skip' in o.state for o in outs)
            never = [o for o in outs if 'skipped' not in o.state and o.kind == 'return']
            rep.add({'primitive': name, 'table': 'skip first', 'skips_on_every_path': not never and not bad_touch})
            if bad_touch or never:
                rep.fail(fn.qualname, 'no-skip-first', f'{name}() does not call next_token() before reading the cursor on every '
                         f'path: whitespace/comments in front of this element are not skipped', fn.loc)
    for cls, names in ((CTX, NOSKIP), (CORE, NOSKIP_CORE)):
        for name in names:
            fn = a.p.func(f'{cls}.{name}')
            calls = [n for n in walk_no_defs(fn.node) if isinstance(n, ast.Call) and _is_next_token(n)]
            # also through other primitives of the context that skip
            via = [n for n in walk_no_defs(fn.node) if isinstance(n, ast.Call) and isinstance(n.func, ast.Attribute)
                   and norm(n.func.value) == 'self' and n.func.attr.lstrip('_') in SKIP + SKIP_ENGINE]
            rep.add({'primitive': name, 'table': 'never skips', 'next_token_calls': len(calls) + len(via)})
            if calls or via:
                rep.fail(fn.qualname, 'skips', f'{name}() skips whitespace ({norm((calls + via)[0])}): the documentation says '
                         f'whitespace is never skipped before this element', f'{fn.module.relpath}:{(calls + via)[0].lineno}')
    # who may skip at all: whitespace is skipped where the table says and nowhere else - not at the entry of a parse (an upper-case start rule
    # or a pattern must see the text as it is), not in the optimizer, not in a model node
    holders = {f'{CTX}.{n}' for n in SKIP} | {f'{ENGINE}.{n}' for n in SKIP_ENGINE} | {f'{ENGINE}.call', f'{ENGINE}.rule_call', f'{CORE}.next_token', f'{CTX}.skip_to'}
    n_sites = 0
    for f in a.p.functions.values():
        if not f.module.name.startswith(('tatsu.contexts', 'tatsu.peg', 'tatsu.parsing', 'tatsu.api')) or f.module.name.startswith(('tatsu.contexts.tracing',)):
            continue
        for n in walk_no_defs(f.node):
            if isinstance(n, ast.Call) and isinstance(n.func, ast.Attribute) and n.func.attr == 'next_token':
                n_sites += 1
                top = f
                while top.parent is not None:
                    top = top.parent
                ok = top.qualname in holders or a.callgraph.only_reached_through(top.qualname, holders)
                rep.add({'next_token_call_in': f.qualname, 'in_the_placement_table': ok})
                if not ok:
                    rep.fail(f.qualname, f'skips-outside-the-table:{norm(n)}', f'`{norm(n)}` in {f.qualname}: whitespace and comments are skipped at a place the documented table does not '
                             f'name (before tokens, constants, void, end of text, the meta matchers and at the entry of lower-case rules) - e.g. in front of an upper-case start '
                             f'rule or a pattern, which must see the text as it is', f'{f.module.relpath}:{n.lineno}')
    if n_sites < 10:
        raise AnalysisError(f'C09.R1: only {n_sites} next_token call sites found in the engine (hand-confirmed: 15)')
    # matcher sites that must not skip on the cursor side: cursor.matchre
    # rule entry
    for q in (f'{ENGINE}.call', f'{ENGINE}.rule_call'):
        fn = a.p.func(q)
        ri = fn.params[1]
        nts = [n for n in walk_no_defs(fn.node) if isinstance(n, ast.Call) and _is_next_token(n)]
        ok = bool(nts) and all([norm(x) for x in n.args] == [ri] for n in nts)
        rep.add({'rule_entry': q, 'next_token_calls': [norm(n) for n in nts], 'guarded_by_ri': ok})
        if not ok:
            rep.fail(q, 'rule-entry-skip', f'{fn.name}() must skip whitespace only through next_token({ri}) (which honours '
                     f'upper-case/token rules); found {[norm(n) for n in nts]}', fn.loc)
    # the guard itself, interpreted
    nt = a.p.func(f'{CORE}.next_token')
    # ... whatever the cursor looks at: a comment or whitespace regex may begin with ANY character (`REM ...`, `--` with @@namechars '-'),
    # so no test of the character at the cursor can stand in for the skip
    for (what, ri_val, want), current, answer in itertools.product(
            (('no rule', None, True), ('lower-case rule', Obj(is_tokn=False), True), ('token rule', Obj(is_tokn=True), False)),
            ('R', ' ', '#', None), (True, False)):
        hit = []

        def methods(recv, name, args, kwargs, hit=hit, answer=answer):
            if name == 'next_token':
                hit.append(1)
                return None
            if isinstance(recv, Obj) and getattr(recv, '_is_cursor', False):
                return answer  # any question the code asks the cursor (is_name_char, atend, ...)
            return NotImplemented

        cur = Obj(current=current, pos=0, _is_cursor=True)
        me = Obj(state=Obj(cursor=cur), cursor=cur)
        try:
            MiniEval({}, methods=methods).call_function(nt.node, [me, ri_val])
        except Unsupported as e:
            raise AnalysisError(f'C09.R1: cannot interpret ParserCore.next_token: {e}') from e
        rep.add({'next_token_guard': what, 'cursor_at': repr(current), 'cursor_answers': answer, 'skips': bool(hit), 'want': want})
        if bool(hit) != want:
            rep.fail(nt.qualname, f'guard:{what}', f'ParserCore.next_token with {what}, the cursor at {current!r} (cursor predicates answering {answer}): '
                     f'skips={bool(hit)}, documented: {want} - whitespace and comments are skipped before every token and lower-case rule, and a comment may '
                     f'begin with any character', nt.loc)
    # is_tokn derivation, interpreted over rule names
    names = {'Foo': True, 'foo': False, '_Foo': True, '_foo': False, 'fooBar': False, 'F': True, '__X_y': True, '_': False, 'x9': False}
    post = a.p.func('tatsu.peg.base.Rule.__post_init__')
    expr_post = None
    for n in walk_no_defs(post.node):
        if isinstance(n, ast.Assign) and norm(n.targets[0]) == 'self.is_tokn':
            expr_post = n.value
    new = a.p.func('tatsu.contexts.infos.RuleInfo.new')
    if expr_post is None:
        raise AnalysisError('is_tokn derivation not found in Rule.__post_init__')
    from ..modelinterp import Hook, ModelInterp, Stub
    for nm, want in names.items():
        got = bool(MiniEval({}).expr(expr_post, {'self': Obj(is_tokn=False, name=nm)}))
        rep.add({'is_tokn': 'Rule.__post_init__', 'rule_name': nm, 'got': got, 'want': want})
        if got != want:
            rep.fail(post.qualname, f'is_tokn:{nm}', f'Rule.__post_init__: rule name {nm!r} -> is_tokn={got}, documented: {want} '
                     f'(first cased character upper-case)', post.loc)
        # RuleInfo.new (generated parsers: the rule is a method), interpreted with a stand-in function object named nm
        seen = {}
        func = Stub('tatsu.contexts.infos.CommentInfo', **{'__name__': nm})
        try:
            ModelInterp(a, {'RuleInfo': Hook(lambda **kw: seen.update(kw))}).call_fn(new, [None, func])
        except Unsupported as e:
            raise AnalysisError(f'cannot interpret RuleInfo.new: {e}') from e
        got = bool(seen.get('is_tokn'))
        rep.add({'is_tokn': 'RuleInfo.new', 'rule_name': nm, 'got': got, 'want': want})
        if got != want or seen.get('name') != nm:
            rep.fail(new.qualname, f'is_tokn:{nm}', f'RuleInfo.new: a rule method named {nm!r} gets name={seen.get("name")!r}, is_tokn={got}; '
                     f'documented: is_tokn={want} (first cased character upper-case)', new.loc)
    # RuleInfo.new default is used only when the function has no explicit attribute
    return rep


def _model_next_token(a, fn, s: str) -> int:
    """Interpret next_token on a model cursor over the abstract string s in {W,E,C}* followed by a non-skippable X."""
    # the class's other plain methods come along (a loop body moved to a private method is interpreted too); the three eaters are the model
    from ..minieval import mro_methods
    me = Obj(mro_methods(a, fn.cls.qualname, skip=('eat_whitespace', 'eat_eol_comments', 'eat_comments', 'next_token')) if fn.cls else None, pos=0)

    def eat(kind):
        p0 = me.pos
        while me.pos < len(s) and s[me.pos] == kind:
            object.__setattr__(me, 'pos', me.pos + 1)
        return me.pos > p0

    def methods(recv, name, args, kwargs):
        if recv is me and name == 'eat_whitespace':
            return eat('W')
        if recv is me and name == 'eat_eol_comments':
            return eat('E')
        if recv is me and name == 'eat_comments':
            return eat('C')
        return NotImplemented

    MiniEval({}, methods=methods).call_function(fn.node, [me])
    return me.pos


def r2_next_token_fixpoint(a, tier):
    rep = RuleReport(
        'C09.R2a',
        'every next_token implementation (TextLinesCursor, BufferCursor, Buffer), interpreted on a model cursor, consumes '
        'the whole run for EVERY run over the abstract alphabet {whitespace, eol comment, comment} up to the length bound '
        '(exhaustive): a run of whitespace and comments of any shape is skipped completely',
        floor=3 * 300,
    )
    n = 6 if tier == 'thorough' else 5
    impls = ['tatsu.input.textlines.TextLinesCursor', 'tatsu.input.buffer.BufferCursor', 'tatsu.input.buffer.Buffer']
    for c in impls:
        fn = a.p.func(f'{c}.next_token')
        for k in range(0, n + 1):
            for tup in itertools.product('WEC', repeat=k):
                s = ''.join(tup)
                # collapse is not needed: maximal-run eaters handle repeats
                end = _model_next_token(a, fn, s)
                rep.add({'impl': c.split('.')[-1], 'run': s or '(empty)', 'consumed': end})
                if end != len(s):
                    rep.fail(fn.qualname, f'run:{s}', f'next_token stops after {end} of the {len(s)} items of the run '
                             f'{"-".join({"W": "ws", "E": "eol", "C": "cmt"}[x] for x in s)} (ws=whitespace, eol=eol comment, '
                             f'cmt=block comment): the token after that run is not reached', fn.loc)
    return rep


def _match_oracle(text, pos, token, ic, ng, nc):
    seg = text[pos:pos + len(token)]
    if not ((seg.lower() == token.lower()) if ic else (seg == token)):
        return None, pos
    e = pos + len(token)
    nxt = text[e] if e < len(text) else None

    def is_nc(c):
        return c is not None and (c.isalnum() or c in nc)
    is_name = (token[0].isalpha() or token[0] in nc) and all(is_nc(c) for c in token[1:])
    if ng and is_nc(nxt) and is_name:
        return None, pos
    return token, e


def r2_matchers(a, tier):
    from ..modelinterp import ModelInterp, Stub
    rep = RuleReport(
        'C09.R2b',
        'sibling token matchers (TextLinesCursor.match, BufferCursor.match, Buffer.match), interpreted on stand-in inputs for EVERY '
        'text up to length 3 and token up to length 2 over {a, A, +} (plus texts with ß, İ, ﬁ - characters whose case mappings change the length of the text - in front of the token), positions 0 and 1 (thorough: every position), ignorecase on/off, nameguard on/off, '
        '@@namechars {} / {+}: the token matches iff the text at the position equals it (case-folded on both sides under '
        'ignorecase) and, under nameguard, it is not a name followed by a name character (the character AFTER the token); a match '
        'returns the token and advances by its length, a rejection leaves the position unchanged; all three agree. matchre takes '
        'no case flag',
        floor=6000,
    )
    impls = ['tatsu.input.textlines.TextLinesCursor', 'tatsu.input.buffer.BufferCursor', 'tatsu.input.buffer.Buffer']
    # the name tests are functions of the token and of THIS input's configuration: match / is_name / is_name_char keep no
    # table of their own (a store into anything but a local or the position would make one parse's namechars decide another's)
    impure = False
    for c in impls:
        for mname in ('match', 'is_name', 'is_name_char'):
            f = a.p.func(f'{c}.{mname}')
            for n in walk_no_defs(f.node):
                bad = None
                if isinstance(n, (ast.Assign, ast.AugAssign, ast.AnnAssign, ast.Delete)):
                    for t in (n.targets if isinstance(n, (ast.Assign, ast.Delete)) else [n.target]):
                        if isinstance(t, ast.Subscript) and not isinstance(t.value, ast.Name):
                            bad = norm(t)
                        if isinstance(t, ast.Attribute) and t.attr not in ('pos', '_pos'):
                            bad = norm(t)
                elif isinstance(n, ast.Call) and isinstance(n.func, ast.Attribute) and n.func.attr in (
                        'setdefault', 'update', 'add', 'append', 'pop', 'clear', '__setitem__') and not isinstance(n.func.value, ast.Name):
                    bad = norm(n)[:60]
                if bad:
                    impure = True
                    rep.fail(f.qualname, f'matcher-state:{mname}', f'{c.split(".")[-1]}.{mname}() stores into `{bad}`: the answer for a token is '
                             f'remembered outside the call, so it no longer depends only on the token and on the @@namechars / nameguard '
                             f'of the input being parsed (a later parse with other settings gets the earlier answer)',
                             f'{f.module.relpath}:{n.lineno}')
            rep.add({'matcher': f.qualname, 'keeps_no_state_of_its_own': not impure})
    if impure:
        return rep
    alpha = 'aA+'
    texts = [''.join(t) for k in range(0, 4) for t in itertools.product(alpha, repeat=k)]
    tokens = [''.join(t) for k in (1, 2) for t in itertools.product(alpha, repeat=k)]
    # ... and texts holding a character whose case mappings change the LENGTH of the text (ß -> ss / SS, İ -> i + combining dot): positions
    # are positions of the text as given, whatever the folding does to what stands before them
    texts += [''.join(t) for k in range(1, 4) for t in itertools.product('ßa', repeat=k) if 'ß' in t] + ['İa', 'İA', 'aİa', 'ﬁa']
    ncsets = [frozenset(), frozenset('+')]
    n_bad = 0
    for c in impls:
        fn = a.p.func(f'{c}.match')

        def mk(it, text, pos, ic, ng, nc, c=c):
            # cursors are built by interpreting their own __init__ on a stand-in input
            if c.endswith('TextLinesCursor'):
                inp = Stub('tatsu.input.textlines.TextLines', textstr=text, len=len(text), ignorecase=ic, nameguard=ng,
                           namechars=set(nc), _namechar_set=set(nc))
            else:
                inp = Stub('tatsu.input.buffer.Buffer', pos=pos, text=text, len=len(text), ignorecase=ic, nameguard=ng,
                           _namechar_set=set(nc), namechars=''.join(nc))
                if c.endswith('.Buffer'):
                    return inp
            me = Stub(c)
            it.apply(it.get_attr(me, '__init__'), [inp, pos], {})
            return me
        for text in texts:
            for pos in range(len(text) + 1 if tier == 'thorough' else min(2, len(text) + 1)):
                for token in tokens:
                    for ic in (False, True):
                        for ng in (False, True):
                            for nc in ncsets:
                                it = ModelInterp(a)
                                try:
                                    me = mk(it, text, pos, ic, ng, nc)
                                    got = it.apply(it.get_attr(me, 'match'), [token], {})
                                    newpos = it.get_attr(me, 'pos')
                                except Unsupported as e:
                                    raise AnalysisError(f'cannot interpret {fn.qualname}: {e}') from e
                                want = _match_oracle(text, pos, token, ic, ng, nc)
                                ok = (got, newpos) == want
                                rep.add({'impl': c.split('.')[-1], 'text': text, 'pos': pos, 'token': token, 'ignorecase': ic,
                                         'nameguard': ng, 'namechars': ''.join(nc), 'result': got, 'newpos': newpos, 'ok': ok})
                                if not ok and n_bad < 10:
                                    n_bad += 1
                                    rep.fail(fn.qualname, f'match:{text!r}:{pos}:{token!r}:{ic}:{ng}:{"".join(nc)}',
                                             f'{c.split(".")[-1]}.match({token!r}) on the text {text!r} at {pos} with ignorecase={ic}, '
                                             f'nameguard={ng}, namechars={"".join(nc)!r} gives (result, position) = {(got, newpos)}; '
                                             f'required {want}', fn.loc)
        # matchre takes no ignorecase
        mre = a.p.func(f'{c}.matchre')
        reach = [mre] + [a.p.functions[f'{c}.{m}'] for m in ('_scanre',) if f'{c}.{m}' in a.p.functions]
        uses_case = any('ignorecase' in norm(n) or 'IGNORECASE' in norm(n) for f in reach for n in walk_no_defs(f.node) if isinstance(n, (ast.Attribute, ast.Name)))
        rep.add({'matcher': mre.qualname, 'uses_ignorecase': uses_case})
        if uses_case:
            rep.fail(mre.qualname, 'pattern-case', 'pattern matching consults ignorecase: the documentation says patterns are '
                     'not affected by @@ignorecase', mre.loc)
    # is_name_char / is_name: interpreted over character classes, compared with the documented table and between siblings
    chars = {'a': True, 'Z': True, '7': True, '-': True, '_': False, '+': False, ' ': False, None: False}  # '-' is in @@namechars
    names = {'abc': True, 'a1': True, '-x': True, 'a-b': True, '1a': False, '': False, 'a+b': False, '+': False, 'x': True}
    for c in impls:
        nc = a.p.func(f'{c}.is_name_char')
        nm = a.p.func(f'{c}.is_name')
        ncs = {'-'}
        me = Obj({'is_name_char': nc.node}, namechars=ncs, _namechar_set=ncs, _namechars=ncs,
                 buffer=Obj(_namechar_set=ncs, namechars=ncs), input=Obj(_namechar_set=ncs, namechars=ncs))
        for ch, want in chars.items():
            got = bool(MiniEval({}).call_function(nc.node, [me, ch]))
            rep.add({'fn': nc.qualname, 'char': ch, 'got': got, 'want': want})
            if got != want:
                rep.fail(nc.qualname, f'is_name_char:{ch!r}', f'is_name_char({ch!r}) = {got} with namechars {{"-"}}; documented: {want} '
                         f'(alphanumeric or in @@namechars)', nc.loc)
        for w, want in names.items():
            got = bool(MiniEval({}).call_function(nm.node, [me, w]))
            rep.add({'fn': nm.qualname, 'word': w, 'got': got, 'want': want})
            if got != want:
                rep.fail(nm.qualname, f'is_name:{w!r}', f'is_name({w!r}) = {got} with namechars {{"-"}}; documented: {want}', nm.loc)
    return rep


def _assign_chain(fn, var: str) -> list[ast.Assign]:
    return [n for n in walk_no_defs(fn.node) if isinstance(n, ast.Assign) and any(isinstance(t, ast.Name) and t.id == var for t in n.targets)]


def r3_layering(a, tier):
    rep = RuleReport(
        'C09.R3',
        'configuration layering by order of application on the def-use chain of the config object: Grammar.__init__ applies '
        'constructor settings, then the directives with hard_override (directives beat compile-time settings); '
        'new_parse_config and bound apply the grammar config, then the call-time config object, then the explicit settings; '
        'override() never lets a None/Undefined setting erase a value; api.compile hands its **settings to the Grammar it '
        'builds and does not configure the parse of the grammar text with them',
        floor=5,
    )
    gi = a.p.func('tatsu.peg.base.Grammar.__init__')
    seq = []
    for n in walk_no_defs(gi.node):
        if isinstance(n, ast.Assign) and isinstance(n.value, ast.Call) and norm(n.targets[0]) in ('config', 'self._config'):
            seq.append((n.lineno, dotted(n.value.func), [k.arg for k in n.value.keywords], [norm(k.value) for k in n.value.keywords if k.arg is None]))
    seq.sort()
    names = [s[1] for s in seq]
    i_new = next((i for i, s in enumerate(seq) if s[1].endswith('ParserConfig.new') and 'settings' in s[3]), None)
    i_dir = next((i for i, s in enumerate(seq) if s[1].endswith('.hard_override') and 'directives' in s[3]), None)
    ok = i_new is not None and i_dir is not None and i_new < i_dir
    rep.add({'Grammar.__init__': [(s[1], s[3]) for s in seq], 'settings_then_directives': ok})
    if not ok:
        rep.fail(gi.qualname, 'directive-order', f'Grammar.__init__ does not apply `ParserConfig.new(..., **settings)` and then '
                 f'`hard_override(**directives)` (found {names}): directives must override compile-time settings', gi.loc)
    for q in ('tatsu.peg.base.Grammar.new_parse_config', 'tatsu.contexts.engine.ParserEngine.bound'):
        fn = a.p.func(q)
        chain = [(n.lineno, norm(n.value)) for n in _assign_chain(fn, 'config') if isinstance(n.value, ast.Call)]
        chain.sort()
        i_base = next((i for i, (_, t) in enumerate(chain) if t.startswith('self.config.override_config(config)')), None)
        i_set = next((i for i, (_, t) in enumerate(chain) if t.startswith('config.override(') and '**settings' in t), None)
        ok = i_base is not None and i_set is not None and i_base < i_set
        rep.add({'fn': q, 'chain': [t[:60] for _, t in chain], 'grammar_config_then_call_config_then_settings': ok})
        if not ok:
            rep.fail(q, 'call-time-order', f'{fn.name} does not build the active config as self.config.override_config(config) '
                     f'followed by .override(..., **settings): explicit parse-time settings must win', fn.loc)
    # _find_common: None/Undefined never erase unless hard
    fc = a.p.func('tatsu.util.configs.Config._find_common')
    nested = [s for s in a.p.functions.values() if s.parent is fc and len(s.node.args.args) == 2]
    er = nested[0] if len(nested) == 1 else None  # the predicate "this value erases nothing" as a nested helper, whatever it is called
    und = object()
    for what, val, cur, want in () if er is None else (('None', None, 1, True), ('Undefined', und, 1, True), ('False', False, True, False),
                                 ('empty string', '', 'x', False), ('empty list over value', [], [1], True), ('value', 'v', None, False)):
        ev = MiniEval({'Undefined': und, 'self': Obj()}, calls={'getattr': lambda o, n: cur})
        got = bool(ev.call_function(er.node, ['name', val]))
        rep.add({'override_erases': what, 'got': got, 'want': want})
        if got != want:
            rep.fail(fc.qualname, f'erases:{what}', f'a soft override with {what} is {"dropped" if got else "applied"}; documented: '
                     f'{"dropped" if want else "applied"}', fc.loc)
    # _find_common as a whole, interpreted: soft override drops erasing values and unknown names, hard override keeps known names
    from ..modelinterp import ModelInterp as _MI2, Stub as _Stub2
    for hard in (False, True):
        me = _Stub2('tatsu.util.configs.Config', a=1, b='x', c=None, d=[1])
        settings = {'a': None, 'b': '', 'c': 'v', 'd': [], 'zzz': 1}
        try:
            got = _MI2(a, {'Undefined': und}).call_fn(fc, [me], {'hard': hard, **settings})
        except Unsupported as e:
            raise AnalysisError(f'cannot interpret {fc.qualname}: {e}') from e
        want = {'a': None, 'b': '', 'c': 'v', 'd': []} if hard else {'b': '', 'c': 'v'}
        ok = got == want
        rep.add({'_find_common': 'hard' if hard else 'soft', 'settings': {k: repr(v) for k, v in settings.items()}, 'kept': sorted(got) if isinstance(got, dict) else repr(got), 'ok': ok})
        if not ok:
            rep.fail(fc.qualname, f'find-common:{"hard" if hard else "soft"}', f'{"hard" if hard else "soft"} override of a config holding '
                     f'a=1, b="x", c=None, d=[1] with {settings} keeps {got}; documented: {want} (a soft override never lets None / '
                     f'Undefined / an empty container erase a value, an empty string or False does apply; unknown names are dropped)', fc.loc)
    # the algebra of Config, interpreted on a stand-in configuration with three settings
    from ..modelinterp import Bound as _Bound, ClassRef as _ClassRef, Hook as _Hook
    CFG = 'tatsu.util.configs.Config'

    def mk(**kw):
        return _Stub2(CFG, **kw)

    def _fields(o):
        return [Obj(name=k, init=True) for k in o._attrs]

    def _replace(o, **kw):
        return _Stub2(o._cls, **{**o._attrs, **kw})
    dc = _Hook(None, replace=_Hook(_replace), fields=_Hook(_fields), is_dataclass=_Hook(lambda o: True))

    def run(me, mname, *args, **kw):
        fn_ = a.ct.lookup(CFG, mname)
        it_ = _MI2(a, {'Undefined': und, 'dataclasses': dc, 'hasattr': _Hook(lambda o, n: isinstance(o, _Stub2) and n in o._attrs),
                       'getattr': _Hook(lambda o, n, *d: o._attrs.get(n, *d) if isinstance(o, _Stub2) else (d[0] if d else None)),
                       'type': _Hook(lambda o: _ClassRef(o._cls) if isinstance(o, _Stub2) else type(o))})
        try:
            r = it_.call_bound(_Bound(me, fn_), list(args), kw)
        except Unsupported as e:
            raise AnalysisError(f'cannot interpret Config.{mname}: {e}') from e
        return dict(r._attrs) if isinstance(r, _Stub2) else r
    base = dict(a=1, b=None, c='x')
    algebra = [
        ('override(a=None, b=2, c=Undefined)', lambda: run(mk(**base), 'override', a=None, b=2, c=und), dict(a=1, b=2, c='x'),
         'an explicit setting wins, None / Undefined leave the value alone'),
        ('hard_override(a=None)', lambda: run(mk(**base), 'hard_override', a=None), dict(a=None, b=None, c='x'), 'a directive may set None'),
        ('override_config(other: a=None, b=5, c="y")', lambda: run(mk(**base), 'override_config', mk(a=None, b=5, c='y')), dict(a=1, b=5, c='y'),
         'the other configuration wins where it says something, and only there'),
        ('merge(a=9, b=7)', lambda: run(mk(**base), 'merge', a=9, b=7), dict(a=1, b=7, c='x'), 'merge only fills what is unset'),
        ('merge_config(other: a=9, b=7, c=None)', lambda: run(mk(**base), 'merge_config', mk(a=9, b=7, c=None)), dict(a=1, b=7, c='x'), 'merge only fills what is unset'),
    ]
    for what, thunk, want, why in algebra:
        got = thunk()
        ok = got == want
        rep.add({'config': 'a=1, b=None, c="x"', 'operation': what, 'result': repr(got), 'want': repr(want), 'ok': ok})
        if not ok:
            rep.fail(f'{CFG}.{what.split("(")[0]}', f'algebra:{what.split("(")[0]}', f'{what} on a configuration a=1, b=None, c="x" gives {got}; required {want} ({why}): '
                     f'the layering defaults < compile-time settings < directives < parse-time settings rests on these operations', a.ct.lookup(CFG, what.split('(')[0]).loc)
    # Config.new(config, **settings): defaults, then the configuration object, then the explicit settings
    newf = a.ct.lookup(CFG, 'new')
    order: list = []
    default_cfg = _Stub2(CFG, a=0, b=0, c=0)
    default_cfg._attrs['override_config'] = _Hook(lambda other, d=default_cfg: (order.append('config'), d)[1])
    default_cfg._attrs['override'] = _Hook(lambda d=default_cfg, **kw: (order.append('settings'), d)[1])
    try:
        _MI2(a, {'dataclasses': dc, 'isinstance': _Hook(lambda o, c: True)}).call_bound(_Bound(_Hook(lambda: default_cfg), newf), [mk(a=2)], {'b': 3})
    except Unsupported as e:
        raise AnalysisError(f'cannot interpret Config.new: {e}') from e
    ok = order == ['config', 'settings']
    rep.add({'Config.new(config, **settings)': order, 'ok': ok})
    if not ok:
        rep.fail(newf.qualname, 'new-order', f'Config.new applies {order}; required: the configuration object first, then the explicit settings (which win)', newf.loc)
    # @@namechars implies nameguard
    pc = a.p.func('tatsu.config.ParserConfig.__post_init__')
    for nc, ng, want_ng in (('-', None, True), ('', None, None), ('', False, False)):
        me = _Stub2('tatsu.config.ParserConfig', namechars=nc, nameguard=ng, ignorecase=None, keywords=None, memoization=True, left_recursion=True, semantics=None,
                    _check_deprecations=_Hook(lambda: None), _compile_comments=_Hook(lambda: None))
        try:
            _MI2(a, {}).call_bound(_Bound(me, pc), [], {})
        except Unsupported as e:
            raise AnalysisError(f'cannot interpret ParserConfig.__post_init__: {e}') from e
        ok = me._attrs.get('nameguard') == want_ng
        rep.add({'ParserConfig': f'namechars={nc!r}, nameguard={ng}', 'nameguard_after': me._attrs.get('nameguard'), 'want': want_ng, 'ok': ok})
        if not ok:
            rep.fail(pc.qualname, f'namechars-nameguard:{nc!r}:{ng}', f'a configuration with namechars={nc!r} and nameguard={ng} ends with nameguard={me._attrs.get("nameguard")}; '
                     f'required {want_ng} (@@namechars implies the name guard)', pc.loc)
    # api.compile
    comp = a.p.func('tatsu.api.api.compile')
    gen_ctor = [n for n in walk_no_defs(comp.node) if isinstance(n, ast.Call) and dotted(n.func).endswith('TatSuParserGenerator')]
    gen_parse = [n for n in walk_no_defs(comp.node) if isinstance(n, ast.Call) and isinstance(n.func, ast.Attribute) and n.func.attr == 'parse']
    boot_configured = any(any(k.arg is None and norm(k.value) == 'settings' for k in n.keywords) for n in gen_ctor + gen_parse)
    # do the settings reach the model config?  (model.config / Grammar(..., **settings) / configure(**settings))
    reaches_model = any(
        isinstance(n, ast.Call) and any(k.arg is None and norm(k.value) == 'settings' for k in n.keywords)
        and (dotted(n.func).endswith(('Grammar', '.configure', '.override', '.hard_override', 'config.merge'))
             or dotted(n.func).endswith('GrammarSemantics'))
        for n in walk_no_defs(comp.node))
    rep.add({'api.compile': {'settings_configure_bootstrap_parse': boot_configured, 'settings_reach_model_config': reaches_model}})
    if boot_configured:
        rep.fail(comp.qualname, 'settings-to-bootstrap', 'compile(**settings) passes the user settings to the parser that reads the '
                 'GRAMMAR TEXT (TatSuParserGenerator(name, **settings) / gen.parse(grammar, **settings)): e.g. whitespace="" or '
                 'nameguard=False changes how the grammar itself is parsed', comp.loc)
    if not reaches_model:
        rep.fail(comp.qualname, 'settings-not-to-model', 'compile(**settings) never reaches the configuration of the compiled '
                 'model: settings given when the grammar is compiled (ignorecase, whitespace, nameguard ...) have no effect', comp.loc)
    return rep


def r2c_input_configuration(a, tier):
    rep = RuleReport(
        'C09.R2c',
        'both input implementations derive their skipping configuration the same way (interpreted): build_whitespace_re maps '
        'Undefined to the default whitespace regex, None and the empty string to "skip nothing", a compiled regex to itself and a '
        'string to its compilation; nameguard is the explicit setting when given (True/False), otherwise on iff whitespace is '
        'skipped or @@namechars are given',
        floor=30,
    )
    import re as _re
    impls = ['tatsu.input.textlines.TextLines', 'tatsu.input.buffer.Buffer']
    und = object()
    default = _re.compile('DEFAULT')
    given = _re.compile(r'[ ]+')
    table = [('Undefined', und, default), ('None', None, None), ("''", '', None), ('compiled regex', given, given),
             ("'\\s+'", r'\s+', ('compiled', r'\s+')), ("' '", ' ', ('compiled', ' '))]
    for c in impls:
        bw = a.p.func(f'{c}.build_whitespace_re')
        for what, val, want in table:
            ev = MiniEval({'Undefined': und, 'DEFAULT_WHITESPACE_RE': default, 're': Obj(Pattern=_re.Pattern)}, calls={'cached_re_compile': lambda s_: ('compiled', s_)})
            try:
                got = ev.call_function(bw.node, [val])
            except Unsupported as e:
                raise AnalysisError(f'cannot interpret {bw.qualname}: {e}') from e
            ok = got == want if not isinstance(want, _re.Pattern) else got is want
            rep.add({'fn': bw.qualname, 'whitespace_setting': what, 'result': 'default regex' if got is default else repr(got), 'ok': ok})
            if not ok:
                rep.fail(bw.qualname, f'whitespace:{what}', f'{c.split(".")[-1]}.build_whitespace_re({what}) gives {got!r}; documented: '
                         f'{"the default whitespace regex" if want is default else repr(want)}', bw.loc)
        init = a.p.func(f'{c}.__init__')
        from ..modelinterp import Hook, ModelInterp, Stub
        nop = Hook(lambda *_a, **_k: None)
        for ng in (None, True, False):
            for ws in (None, given):
                for nc in ('', '-', None):
                    cfg = Obj(nameguard=ng, namechars=nc, whitespace=ws)
                    me = Stub(c, _preprocess=nop, _postprocess=nop, build_whitespace_re=Hook(lambda w: w))
                    it = ModelInterp(a, {'ParserConfig': Hook(lambda *_a, **_k: cfg, new=Hook(lambda *_a, **_k: cfg))})
                    try:
                        it.call_fn(init, [me, 'text'])
                    except Unsupported as e:
                        raise AnalysisError(f'cannot interpret {init.qualname}: {e}') from e
                    got = me._attrs.get('nameguard', '<not set>')
                    want = ng if ng is not None else (ws is not None or bool(nc))
                    rep.add({'input': c.split('.')[-1], 'nameguard_setting': ng, 'skips_whitespace': ws is not None, 'namechars': nc,
                             'nameguard': got, 'want': want})
                    # the name characters are those of @@namechars - none when the setting is unset: unset (the model) and '' (what generated
                    # parsers write for a grammar without @@namechars) mean the same
                    ncs = me._attrs.get('_namechar_set', '<not set>')
                    okn = ncs != '<not set>' and set(ncs) == set(nc or '')
                    rep.add({'input': c.split('.')[-1], 'namechars': nc, 'name_character_set': sorted(ncs) if okn or isinstance(ncs, (set, frozenset, list, tuple, str)) else ncs, 'ok': okn})
                    if not okn:
                        rep.fail(init.qualname, f'namechar-set:{nc!r}', f'{c.split(".")[-1]}: namechars {nc!r} gives the name-character set {ncs!r}; required {sorted(set(nc or ""))} '
                                 f'(unset and empty are the same: a generated parser writes namechars=\'\' where the compiled model leaves it unset, and the two must '
                                 f'guard the same tokens)', init.loc)
                    if got == '<not set>' or bool(got) != want or (ng is not None and got is not ng):
                        rep.fail(init.qualname, f'nameguard:{ng}:{ws is not None}:{nc!r}', f'{c.split(".")[-1]}: nameguard setting {ng}, whitespace '
                                 f'{"skipped" if ws is not None else "not skipped"}, namechars {nc!r} -> nameguard={got}; required {want} '
                                 f'(the explicit setting wins; otherwise on iff whitespace is skipped or namechars are given)', init.loc)
    return rep


def r2d_cursor_primitives(a, tier):
    from ..modelinterp import Bound, Hook, ModelInterp, Recorder, Stub
    rep = RuleReport(
        'C09.R2d',
        'cursor primitives of the three input implementations, interpreted on a stand-in input: a pattern is matched ANCHORED at the current '
        'position (the regex method called is match(text, pos), never search) and matching it skips nothing first; matchre advances by the '
        'length of the whole match and returns the group text; goto clamps into [0, len]; atend is true exactly at len; next returns the '
        'current character and advances by one, None at the end',
        floor=15,
    )
    impls = ['tatsu.input.textlines.TextLinesCursor', 'tatsu.input.buffer.BufferCursor', 'tatsu.input.buffer.Buffer']
    TEXT = 'ab cd'

    def mk(c, pos):
        if c.endswith('.Buffer'):
            return Stub(c, pos=pos, text=TEXT, textstr=TEXT, len=len(TEXT))
        inp = Stub('tatsu.input.textlines.TextLines' if 'textlines' in c else 'tatsu.input.buffer.Buffer', textstr=TEXT, text=TEXT, len=len(TEXT))
        return Stub(c, pos=pos, input=inp, buffer=inp, textstr=TEXT, text=TEXT, len=len(TEXT))

    def run(me, mname, *args, g=None):
        fn = a.ct.lookup(me._cls, mname)
        it = ModelInterp(a, {'len': Hook(len), **(g or {})})
        try:
            return it.call_bound(Bound(me, fn), list(args), {})
        except Unsupported as e:
            raise AnalysisError(f'C09.R2d: cannot interpret {me._cls.split(".")[-1]}.{mname}: {e}') from e

    for c in impls:
        short = c.split('.')[-1]
        # _scanre: anchored
        rx = Recorder('regex')
        me = mk(c, 2)
        run(me, '_scanre', 'PATTERN', g={'cached_re_compile': Hook(lambda p_: rx)})
        calls = [(t[0], t[1]) for t in rx.trace]
        ok = calls == [('match', (TEXT, 2))]
        rep.add({'impl': short, '_scanre': [f'{n}{args!r}' for n, args in calls], 'anchored_at_the_position': ok})
        if not ok:
            fn = a.ct.lookup(c, '_scanre')
            rep.fail(fn.qualname, f'scan:{short}', f'{short}._scanre asks the regex with {calls}; required match(text, pos): a pattern must match AT the position '
                     f'(search finds it anywhere ahead and the text in between is silently skipped)', fn.loc)
        # matchre: whole-match length, group text, nothing skipped first
        skipped: list = []
        m = Hook(None, group=Hook(lambda *g_: 'ab '), groups=Hook(lambda: ('ab',)), end=Hook(lambda: 3), start=Hook(lambda: 0))
        me = mk(c, 0)
        for nm in ('next_token', 'eat_whitespace', 'eat_comments', 'eat_eol_comments'):
            me._attrs[nm] = Hook(lambda *x, nm=nm: skipped.append(nm))
        me._attrs['_scanre'] = Hook(lambda p_: m)
        got = run(me, 'matchre', 'PATTERN', g={'str_from_match': Hook(lambda mm: 'ab')})
        ok = got == 'ab' and me._attrs['pos'] == 3 and not skipped
        rep.add({'impl': short, 'matchre': 'whole match "ab ", group "ab"', 'returns': got, 'position_after': me._attrs['pos'], 'skipped_first': skipped, 'ok': ok})
        if not ok:
            fn = a.ct.lookup(c, 'matchre')
            rep.fail(fn.qualname, f'matchre:{short}', f'{short}.matchre with a match of "ab " whose group is "ab" returns {got!r}, leaves the position at {me._attrs["pos"]} '
                     f'(skipping calls before: {skipped}); required: "ab", position 3, nothing skipped (whitespace is never skipped before a pattern)', fn.loc)
        # goto / atend / next
        for target, want in ((-4, 0), (2, 2), (len(TEXT), len(TEXT)), (len(TEXT) + 7, len(TEXT))):
            me = mk(c, 1)
            run(me, 'goto', target)
            ok = me._attrs['pos'] == want
            rep.add({'impl': short, 'goto': target, 'position': me._attrs['pos'], 'want': want})
            if not ok:
                fn = a.ct.lookup(c, 'goto')
                rep.fail(fn.qualname, f'goto:{short}:{target}', f'{short}.goto({target}) on a text of length {len(TEXT)} leaves the position at {me._attrs["pos"]}; required {want}', fn.loc)
        for pos, want in ((0, False), (len(TEXT) - 1, False), (len(TEXT), True)):
            got = bool(run(mk(c, pos), 'atend'))
            rep.add({'impl': short, 'atend_at': pos, 'got': got, 'want': want})
            if got != want:
                fn = a.ct.lookup(c, 'atend')
                rep.fail(fn.qualname, f'atend:{short}:{pos}', f'{short}.atend() at position {pos} of {len(TEXT)} is {got}', fn.loc)
        for pos, want_c, want_p in ((0, 'a', 1), (len(TEXT) - 1, 'd', len(TEXT)), (len(TEXT), None, len(TEXT))):
            me = mk(c, pos)
            got = run(me, 'next')
            ok = got == want_c and me._attrs['pos'] == want_p
            rep.add({'impl': short, 'next_at': pos, 'returns': got, 'position_after': me._attrs['pos'], 'ok': ok})
            if not ok:
                fn = a.ct.lookup(c, 'next')
                rep.fail(fn.qualname, f'next:{short}:{pos}', f'{short}.next() at {pos} returns {got!r} and leaves the position at {me._attrs["pos"]}; required {want_c!r} and {want_p}', fn.loc)
    return rep


RULES = [r1_placement, r2_next_token_fixpoint, r2_matchers, r2c_input_configuration, r3_layering, r2d_cursor_primitives]
