"""C05 - a cut commits within its documented scope and nowhere else (structural clauses)."""
from __future__ import annotations

import ast

from ..loader import AnalysisError, dotted, norm, walk_no_defs
from ..paths import FOREIGN, FP, PE, Exc, Executor, Out, Semantics
from ..report import RuleReport
from ..rules.common import through_locals, rule_chain
from ..rules.frames import (POPPERS, PUSHERS, classify_exc, generic_hole, pushing_functions, stack_op)

LEVEL = 'other'
TECHNIQUE = ('static: who-may-write rule on the cut flag, sibling-summary agreement of the scope constructs by '
             'path-state execution (undo + re-raise iff the popped frame saw a cut), frame classification table, '
             'must-pass-through of the separator commit')
LEVEL_TEXT = ('Decides, for all paths of the engine code: the cut flag is written only by cut() on the current frame '
              '(plus the reviewed hand-over in isolate); the four scope constructs named by the documentation '
              '(option, optional, Choice._parse, Optional._parse) share one failure protocol - undo the frame and '
              're-raise iff that frame saw a cut; every sub-expression of a scope is evaluated inside its own frame; '
              'every other frame-pushing function is classified (barrier / wrapper / transparent) and transparent '
              'ones hand the flag on; a join commits after each separator. Outcomes for particular grammars/inputs '
              'are not decided.')
TECHNIQUE += '; path rule for the cut itself (every path of cut() sets the flag of the current frame before pruning), derived frame classification by frame signature (kind, exception family, closing operations, net depth) with the users of state-dropping wrappers checked to be scopes, rule boundaries or flag-forwarding (isolate, skipgroup), element-behind-wrapper clause for closures'
LEVEL_TEXT += ' Added clauses: cut() sets the flag on every path; a frame pusher written with explicit push/merge/undo is classified by its exit signature; every user of a wrapper that drops the flag (statescope) is a scope of its own, a rule boundary, or hands the flag on (isolate, skipgroup); the element of a closure is evaluated directly in the repetition frame, not behind an optional.'
TECHNIQUE += '; transparent frames derived (any frame pusher that stores the flag of its own frame into the enclosing one is verified like isolate), flag-dropping frames the generator emits around non-scope constructs are violations'
LEVEL_TEXT += ' Added clause: group() of the generated runtime hands a cut on (it is not a cut scope).'
TECHNIQUE += '; a committed failure raised by repeat() leaves every caller as a failure on every path (C05.R5, path-state execution)'
LEVEL_TEXT += ' Added clause: a join that matched its separator, or an iteration that passed a cut, fails the repetition instead of ending it.'
LEVEL_NOTE = ('Oracle: docs/syntax.rst section on ~ (A->[x] == B->x|e, A->{x} == B->xB|e, join == e {s ~ e}). '
              'contextmanager throws the body exception at the yield.')
EXPLANATION = ('Static analysis of /repo sources, TatSu not imported. Each scope construct is executed abstractly '
               '(state = frame depth + flags; with-body/hole and sub-parsers may complete or raise any ParseException) '
               'and its outcome summary compared with its siblings and with the documented protocol.')
ASSUMPTIONS = [LEVEL_NOTE]

CTX = 'tatsu.contexts.context.ParseContext'
CORE = 'tatsu.contexts.core.ParserCore'
ENGINE = 'tatsu.contexts.engine.ParserEngine'

SCOPE_CONSTRUCTS = {
    f'{CTX}.option': 'option of a choice / iteration of a repetition (generated parsers, repeat)',
    f'{CTX}.optional': 'optional and first iteration of a closure',
    'tatsu.peg.choice.Choice._parse': 'option of a choice (model)',
    'tatsu.peg.syntax.Optional._parse': 'optional (model)',
}
FRAME_CLASSES = {
    **{q: 'scope' for q in SCOPE_CONSTRUCTS},
    f'{CTX}.if_': 'barrier: lookahead, the frame is always discarded',
    f'{ENGINE}.rule_call': 'barrier: rule boundary (the enclosing rule is the outermost cut scope)',
    f'{CORE}.statescope': 'wrapper: its failure already fails the enclosing scope construct, nothing to propagate',
    f'{CTX}.isolate': 'transparent: sits between a cut site in a repetition element and the option() frame of the '
                      'iteration, must hand the popped frame\'s cutseen to the enclosing frame',
    f'{CTX}.skipgroup': 'transparent: (?: ...) is not a cut scope, must hand the popped frame\'s cutseen to the enclosing frame',
}


WRAPPER_USERS = {
    f'{CTX}.closure': 'scope: a closure iteration is a cut scope of the property (first iteration under optional(), later ones under option())',
    f'{CTX}.positive_closure': 'scope: the mandatory first iteration fails the whole repetition anyway',
    f'{ENGINE}.func_call': 'barrier: rule boundary',
}


def _private_callees(a, f, seen=None):
    """private plain functions / methods of f's module that f calls (transitively): the code a maintainer moved out of f"""
    seen = seen if seen is not None else {}
    for n in walk_no_defs(f.node):
        if isinstance(n, ast.Call):
            h = a.extents.helper_for_call(f, f, n) or a.extents.shared_helper_for_call(f, n)
            if h is not None and h.qualname not in seen and h is not f:
                seen[h.qualname] = h
                _private_callees(a, h, seen)
    return seen


def _stores_cutseen(f) -> bool:
    return any(isinstance(n, ast.Assign) and any(isinstance(t, ast.Attribute) and t.attr == 'cutseen' for t in n.targets) for n in walk_no_defs(f.node))


def _handover_pushers(a):
    """frame-pushing functions that store into <frame>.cutseen, themselves or in a private helper they call: declared hand-overs
    (transparent frames), verified by R3"""
    out = []
    for f in pushing_functions(a):
        if f.qualname.endswith('.cut') or f.name == '__init__':
            continue
        if _stores_cutseen(f) or any(_stores_cutseen(h) for h in _private_callees(a, f).values()):
            out.append(f)
    return out


def _handover_helpers(a) -> set:
    """private helpers that store cutseen and are called only from hand-over pushers (their store is verified with the pusher)"""
    pushers = _handover_pushers(a)
    allowed = {p.qualname for p in pushers}
    out = set()
    for p in pushers:
        for q, h in _private_callees(a, p).items():
            if _stores_cutseen(h) and a.callgraph.only_reached_through(q, allowed):
                out.add(q)
    return out


def r1_flag_ownership(a, tier):
    rep = RuleReport(
        'C05.R1',
        'the cut flag (ParseState.cutseen) is initialised False in ParseState.__init__, set True only by '
        'ParserCore.cut() on the current frame (unconditionally, first effect), and otherwise written only by the '
        'reviewed hand-over in isolate(); no merge/clone/copy/push copies it',
        floor=3,
    )
    allowed = {
        'tatsu.contexts.state.ParseState.__init__': 'False',
        f'{CORE}.cut': 'True',
    }
    handover_pushers = {f.qualname for f in _handover_pushers(a)} | _handover_helpers(a)
    seen = set()
    for f in a.p.functions.values():
        for n in walk_no_defs(f.node):
            targets = []
            if isinstance(n, ast.Assign):
                targets = n.targets
            elif isinstance(n, (ast.AnnAssign, ast.AugAssign)):
                targets = [n.target]
            for t in targets:
                if isinstance(t, ast.Attribute) and t.attr == 'cutseen':
                    val = norm(n.value) if getattr(n, 'value', None) is not None else '?'
                    rep.add({'writer': f.qualname, 'store': norm(n)})
                    seen.add(f.qualname)
                    want = allowed.get(f.qualname)
                    if want is None and f.qualname in handover_pushers and val == 'True':
                        continue  # a frame pusher that hands the flag of its own frame on: verified as 'transparent' by R3
                    if want is None:
                        rep.fail(f.qualname, f'cutseen-writer:{norm(n)}', f'`{norm(n)}` writes the cut flag outside cut(): '
                                 f'a frame can gain or lose a commit it did not execute', f'{f.module.relpath}:{n.lineno}')
                    elif val != want:
                        rep.fail(f.qualname, f'cutseen-value:{norm(n)}', f'`{norm(n)}`: expected the constant {want}', f'{f.module.relpath}:{n.lineno}')
            if isinstance(n, ast.Call) and isinstance(n.func, ast.Name) and n.func.id == 'setattr' and len(n.args) >= 2 \
                    and isinstance(n.args[1], ast.Constant) and n.args[1].value == 'cutseen':
                rep.fail(f.qualname, 'cutseen-setattr', 'setattr(..., "cutseen", ...) outside cut()', f'{f.module.relpath}:{n.lineno}')
    for q in ('tatsu.contexts.state.ParseState.__init__', f'{CORE}.cut'):
        if q not in seen:
            rep.fail(q, 'cutseen-missing', f'{q} no longer writes cutseen', a.p.func(q).loc)
    cut = a.p.func(f'{CORE}.cut')

    class CutSem(Semantics):
        """'set' once <x>.state.cutseen = True (or <x>.cutseen on an alias of the current state) ran; 'late' when a call or a branch
        precedes it"""

        def stmt(self, ex, fn, node, state):
            if ex.in_extent(fn) and isinstance(node, ast.Assign) and any(isinstance(t, ast.Attribute) and t.attr == 'cutseen' for t in node.targets) \
                    and norm(node.value) == 'True':
                t = next(t for t in node.targets if isinstance(t, ast.Attribute) and t.attr == 'cutseen')
                recv = norm(through_locals(fn, t.value))
                if recv in ('self.state', 'self.states.state'):
                    return frozenset(state | {'set'})
            return state

        def call(self, ex, fn, node, state):
            if 'set' not in state:
                state = frozenset(state | {'late'})
            return ex.default_call(fn, node, state)

        def test(self, ex, fn, test, state):
            if 'set' not in state:
                state = frozenset(state | {'late'})
            return [state], [state]

    outs = Executor(a.p, a.ct, a.resolver, CutSem(), raises=a.raises).run(cut, frozenset())
    unset = [o for o in outs if o.kind == 'return' and 'set' not in o.state]
    late = [o for o in outs if 'late' in o.state]
    ok = not unset and not late and bool(outs)
    rep.add({'cut_records_the_cut_first_on_every_path': ok, 'exits': len(outs)})
    if not ok:
        rep.fail(cut.qualname, 'cut-not-first', 'cut() does not begin with `self.state.cutseen = True` on the current frame '
                 '(a conditional or later store can be skipped by the early return for pruning' + ('; a call or a test runs before the store)' if late else ')'),
                 cut.loc)
    return rep


class ScopeSem(Semantics):
    """State = (depth, frozenset(flags)).  Records the depth at which bodies are evaluated."""

    def __init__(self, a, fn, fixed: dict | None = None):
        self.a = a
        self.fn = fn
        self.fixed = fixed or {}  # parameters of fn whose value is the same constant at every call site
        self.body_depths: list[tuple[int, int]] = []
        self.undo_vars: set[str] = set()
        for n in walk_no_defs(fn.node):
            if isinstance(n, ast.Assign) and isinstance(n.value, ast.Call) and stack_op(a, fn, n.value) in ('undo', 'pop') \
                    and isinstance(n.targets[0], ast.Name):
                self.undo_vars.add(n.targets[0].id)

    def call(self, ex, fn, node, state):
        depth, flags = state
        op = stack_op(self.a, fn, node)
        if op in PUSHERS:
            return [('next', (depth + 1, flags), None)]
        if op in POPPERS:
            return [('next', (depth - 1, frozenset(flags | {f'closed:{op}'})), None)]
        if fn is self.fn and self.is_body_call(fn, node):
            self.body_depths.append((node.lineno, depth))
            origin = f'body@{node.lineno}'
            return [('next', state, None), ('raise', state, Exc(PE, origin)), ('raise', state, Exc(FOREIGN, origin))]
        return ex.default_call(fn, node, state)

    def is_body_call(self, fn, node) -> bool:
        f = node.func
        if isinstance(f, ast.Attribute) and f.attr == '_parse':
            return True
        nm = dotted(f)
        return nm in ('self.expcall', 'self.func_call', 'ctx.expcall') or (
            isinstance(f, ast.Name) and f.id in fn.params)

    def tracked(self, ex, fn, node):
        return stack_op(self.a, fn, node) is not None

    def test(self, ex, fn, test, state):
        depth, flags = state
        if fn is self.fn and self._is_cut_test(fn, test):
            return [(depth, frozenset(flags | {'cut'}))], [(depth, frozenset(flags | {'nocut'}))]
        if fn is self.fn and isinstance(test, ast.Name) and test.id in self.fixed:
            return ([state], []) if self.fixed[test.id] else ([], [state])
        return [state], [state]

    def _is_cut_test(self, fn, test) -> bool:
        if isinstance(test, ast.Attribute) and test.attr == 'cutseen':
            v = test.value
            if isinstance(v, ast.Call) and stack_op(self.a, fn, v) in ('undo', 'pop'):
                return True
            if isinstance(v, ast.Name) and v.id in self.undo_vars:
                return True
        return False


def _scope_outcomes(a, fn, fixed=None):
    sem = ScopeSem(a, fn, fixed)
    ex = Executor(a.p, a.ct, a.resolver, sem, raises=a.raises)
    is_cm = any(d.split('.')[-1] == 'contextmanager' for d in fn.decorators)

    def hole(state):
        sem.body_depths.append((0, state[0]))
        return {Out('next', state), Out('raise', state, Exc(PE, 'body@with')), Out('raise', state, Exc(FOREIGN, 'body@with'))}

    outs = ex.run(fn, (0, frozenset()), hole=hole if is_cm else None)
    return outs, sem


def r2_scope_protocol(a, tier):
    rep = RuleReport(
        'C05.R2',
        'the four scope constructs the documentation names (option, optional, Choice._parse, Optional._parse) share '
        'one failure protocol: when the body fails with a FailedParse the frame is discarded with undo() and the '
        'failure is re-raised iff the discarded frame saw a cut (test on the frame returned by undo()); a failure never '
        'propagates without that test being true and never is swallowed when it is true; each body is evaluated '
        'inside the frame pushed for it (depth +1)',
        floor=4,
    )
    for q, what in SCOPE_CONSTRUCTS.items():
        fn = a.p.func(q)
        outs, sem = _scope_outcomes(a, fn)
        own_raises = {f'{fn.module.relpath}:{n.lineno}' for n in walk_no_defs(fn.node) if isinstance(n, ast.Raise) and n.exc is not None}
        summary = set()
        for o in outs:
            depth, flags = o.state
            fam = classify_exc(a, o.exc) if o.exc else '-'
            body_origin = bool(o.exc and o.exc.origin.startswith('body@'))
            summary.add((o.kind, fam, 'cut' in flags, 'nocut' in flags, body_origin))
            if 'cut' in flags and not (o.kind == 'raise' and fam in ('failedparse', 'parseexception')):
                rep.fail(q, 'cut-swallowed', f'{what}: a path on which the discarded frame had seen a cut ends with '
                         f'`{o.kind}` instead of re-raising the failure: the cut does not commit', fn.loc)
            if o.kind == 'raise' and fam == 'failedparse' and body_origin and 'cut' not in flags:
                rep.fail(q, 'uncut-propagates', f'{what}: a FailedParse of the body leaves the construct although no cut '
                         f'was seen in its frame: the enclosing choice/optional/repetition cannot backtrack', fn.loc)
            if o.kind == 'raise' and fam == 'failedparse' and 'cut' in flags and 'closed:undo' not in flags:
                rep.fail(q, 'cut-not-undone', f'{what}: the committed failure is re-raised without undo() of the frame', fn.loc)
        has_cut_path = any('cut' in o.state[1] for o in outs)
        rep.add({'construct': q, 'role': what, 'summary(kind,exc,cut,nocut,from-body)': sorted(summary),
                 'body_depths': sorted(set(d for _, d in sem.body_depths))})
        if not has_cut_path:
            rep.fail(q, 'no-cut-test', f'{what}: no path tests `.cutseen` of the frame returned by undo(): a cut inside '
                     f'this construct can never commit (or the wrong frame is inspected)', fn.loc)
        for line, d in sem.body_depths:
            if d < 1:
                rep.fail(q, 'body-outside-frame', f'{what}: a body/option is evaluated at frame depth {d:+d}, i.e. on the '
                         f'enclosing frame: a cut inside it marks the enclosing scope and its effects are not undone '
                         f'on failure', f'{fn.module.relpath}:{line or fn.node.lineno}')
    return rep


def constant_parameters(a, f) -> dict:
    """parameters of f with a literal bool default that no call in the package passes explicitly (they have that value always)"""
    out = {}
    args = f.node.args
    cands = list(zip(args.kwonlyargs, args.kw_defaults)) + list(zip(args.args[len(args.args) - len(args.defaults):], args.defaults))
    for p, d in cands:
        if isinstance(d, ast.Constant) and isinstance(d.value, bool):
            out[p.arg] = d.value
    if not out:
        return out
    npos = len(args.args) - (1 if f.cls is not None else 0)
    for g in a.p.functions.values():
        for n in walk_no_defs(g.node):
            if isinstance(n, ast.Call) and ((isinstance(n.func, ast.Attribute) and n.func.attr == f.name) or
                                            (isinstance(n.func, ast.Name) and n.func.id == f.name)):
                for k in n.keywords:
                    if k.arg is None:
                        return {}
                    out.pop(k.arg, None)
                if len(n.args) > npos - len(args.defaults):
                    return {}
    return out


def frame_signature(a, f, fixed=None):
    """what happens to the frame(s) a pusher opens, per exit: (exit kind, exception family, closing operations, net depth)"""
    outs, _sem = _scope_outcomes(a, f, fixed)
    sig = set()
    for o in outs:
        _d, flags = o.state
        fam = classify_exc(a, o.exc) if o.exc else '-'
        sig.add((o.kind, fam, tuple(sorted(x for x in flags if x.startswith('closed:'))), _d))
    return frozenset(sig)


def _check_transparent(a, rep, iso):

    class IsoSem(ScopeSem):
        def stmt(self, ex, fn, node, state):
            depth, flags = state
            if (fn is iso or ex.in_extent(fn)) and isinstance(node, ast.Assign):
                if isinstance(node.value, ast.Attribute) and node.value.attr == 'cutseen' and not any(x.startswith('closed:') for x in flags) \
                        and isinstance(node.targets[0], ast.Name):
                    return (depth, frozenset(flags | {'saved'}))
                t = node.targets[0]
                if isinstance(t, ast.Attribute) and t.attr == 'cutseen':
                    if any(x.startswith('closed:') for x in flags) and 'saved' in flags:
                        return (depth, frozenset(flags | {'handed'}))
                    return (depth, frozenset(flags | {'bad-handover'}))
            return state

    sem = IsoSem(a, iso)
    ex = Executor(a.p, a.ct, a.resolver, sem, raises=a.raises)
    is_cm = any(d.split('.')[-1] == 'contextmanager' for d in iso.decorators)

    def hole(state):
        return {Out('next', state), Out('raise', state, Exc(PE, 'body@with')), Out('raise', state, Exc(FOREIGN, 'body@with'))}
    outs = ex.run(iso, (0, frozenset()), hole=hole if is_cm else None)
    kinds = {(o.kind if o.kind != 'raise' else classify_exc(a, o.exc)): False for o in outs}
    for o in outs:
        k = o.kind if o.kind != 'raise' else classify_exc(a, o.exc)
        if 'handed' in o.state[1]:
            kinds[k] = True
    rep.add({'transparent': iso.qualname, 'hand_over_reachable_per_exit': kinds})
    for k in ('return', 'failedparse'):
        if k in kinds and not kinds[k]:
            rep.fail(iso.qualname, f'cut-dropped:{k}', f'{iso.name}() discards its frame on the `{k}` exit without handing the '
                     f'frame\'s cutseen to the enclosing frame: a cut inside iteration >= 2 of a closure/join is lost '
                     f'(iteration 1 runs directly under optional() and keeps it)', iso.loc)
    if any('bad-handover' in o.state[1] for o in outs):
        rep.fail(iso.qualname, 'handover-before-pop', f'{iso.name}() stores cutseen before popping its own frame (the store '
                 'lands on the frame being discarded) or stores a value not read from that frame', iso.loc)


def r3_frame_classification(a, tier):
    rep = RuleReport(
        'C05.R3',
        'every function that pushes a state frame is classified: scope construct (R2), barrier by documentation '
        '(lookahead, rule boundary), wrapper (statescope: re-raises after undo, so the failure fails the scope construct '
        'around it) or transparent (isolate: hands the popped frame\'s cutseen to the enclosing frame on every exit); '
        'an unclassified pusher is a violation until reviewed',
        floor=8,
    )
    signature = lambda f: frame_signature(a, f)  # noqa: E731
    reviewed_sigs = {}
    for q, c in FRAME_CLASSES.items():
        if c.startswith(('barrier', 'wrapper')) and q in a.p.functions:
            try:
                reviewed_sigs[q] = signature(a.p.functions[q])
            except Exception:  # noqa: BLE001
                pass
    derived_transparent = {f.qualname: f for f in _handover_pushers(a)}
    for f in pushing_functions(a):
        cls = FRAME_CLASSES.get(f.qualname)
        if cls is None and f.qualname in derived_transparent:
            cls = 'transparent (derived): stores the flag of its own frame into the enclosing frame; verified below'
        if cls is None:
            # every exit treats the frame as some exit of a reviewed barrier / wrapper does (push ... merge | undo + re-raise, written
            # with explicit calls instead of the context manager): classified like it
            try:
                sg = signature(f)
                twin = next((q for q, s_ in reviewed_sigs.items() if sg and sg <= s_ and any(k == 'return' for k, *_ in sg)), None)
            except Exception:  # noqa: BLE001
                twin = None
            if twin:
                cls = f'like {twin.split(".")[-1]}: {FRAME_CLASSES[twin]}'
                if FRAME_CLASSES[twin].startswith('wrapper'):
                    # a frame that drops the flag when it is merged/popped is sound only under a construct that is a cut scope or a
                    # rule boundary itself; the generator wraps NON-scope constructs (groups, names ...) in the context managers it emits
                    gen = a.p.modules.get('tatsu.ngcodegen.ngparser_gen')
                    emitted = gen is not None and any(isinstance(n, ast.Attribute) and n.attr in (f.name, '_' + f.name) and isinstance(n.value, ast.Name)
                                                      and n.value.id == 'Ctx' for n in ast.walk(gen.tree))
                    if emitted:
                        rep.add({'pusher': f.qualname, 'class': cls, 'emitted_by_generator': True})
                        rep.fail(f.qualname, 'flag-dropping-frame-emitted', f'{f.name}() evaluates its block in a frame that is merged/undone '
                                 f'without handing cutseen on (like statescope) and the parser generator emits it around a construct that is not '
                                 f'a cut scope: a cut inside the block is lost for the enclosing choice/optional/repetition', f.loc)
                        continue
        rep.add({'pusher': f.qualname, 'class': cls})
        if cls is None:
            rep.fail(f.qualname, 'unclassified-frame', 'pushes a state frame but is not classified as scope / barrier / '
                     'wrapper / transparent: a cut executed under this frame may be lost or leaked', f.loc)
    # users of the wrapper: a cut executed in a statescope() frame dies with that frame (merge/pop/undo do not hand cutseen on), so
    # every construct built on statescope() must be a cut scope of its own (closure: the property names closure iterations), a
    # barrier (rule boundary), or hand the flag on itself
    for f in a.p.functions.values():
        if not f.qualname.startswith(('tatsu.contexts.', 'tatsu.peg.', 'tatsu.parsing')) or f.qualname == f'{CORE}.statescope':
            continue
        uses = [n for n in walk_no_defs(f.node) if isinstance(n, ast.With) and any(
            isinstance(it.context_expr, ast.Call) and dotted(it.context_expr.func).split('.')[-1] == 'statescope' for it in n.items)]
        if not uses:
            continue
        cls = WRAPPER_USERS.get(f.qualname)
        rep.add({'wrapper_user': f.qualname, 'class': cls})
        if cls is None:
            rep.fail(f.qualname, 'wrapper-user-drops-cut', f'{f.name}() evaluates its body in a statescope() frame and is neither a cut '
                     f'scope of its own nor a rule boundary: a cut executed in that body marks the statescope frame, which is discarded '
                     f'without handing cutseen on, so the enclosing choice/optional/repetition backtracks over a committed failure',
                     f'{f.module.relpath}:{uses[0].lineno}')
    # inside the frame of a scope construct, a combinator of the context evaluates its element directly, through isolate()
    # (transparent) or through repeat() (each iteration has its own option() scope) - never through a method that wraps the
    # element in a statescope() frame, which would take the cut away from the frame the scope construct inspects
    wrapped = set(WRAPPER_USERS) | {f.qualname for f in a.p.functions.values() if f.qualname.startswith(CTX + '.') and any(
        isinstance(n, ast.With) and any(isinstance(it.context_expr, ast.Call) and dotted(it.context_expr.func).split('.')[-1] == 'statescope'
                                        for it in n.items) for n in walk_no_defs(f.node))}
    wrapped_names = {q.split('.')[-1] for q in wrapped} | {'_' + q.split('.')[-1] for q in wrapped}
    ctxc = a.p.cls(CTX)
    for mname, m in ctxc.methods.items():
        for w in [n for n in walk_no_defs(m.node) if isinstance(n, ast.With) and any(
                isinstance(it.context_expr, ast.Call) and dotted(it.context_expr.func) in ('self.optional', 'self.option', 'self._optional', 'self._option')
                for it in n.items)]:
            for c in [x for s_ in w.body for x in ast.walk(s_) if isinstance(x, ast.Call)]:
                if isinstance(c.func, ast.Attribute) and norm(c.func.value) == 'self' and c.func.attr in wrapped_names \
                        and any(isinstance(x, ast.Name) and x.id in m.params for x in [*c.args, *[k.value for k in c.keywords]]):
                    rep.add({'scope_region_in': m.qualname, 'element_evaluated_through': c.func.attr, 'ok': False})
                    rep.fail(m.qualname, f'element-behind-wrapper:{c.func.attr}', f'{mname}() evaluates its element inside its optional()/option() '
                             f'frame through {c.func.attr}(), which runs the element in a statescope() frame: a cut in the element marks '
                             f'that inner frame, the failure reaches the optional()/option() whose own frame saw no cut, and the '
                             f'repetition silently matches nothing instead of failing', f'{m.module.relpath}:{c.lineno}')
    # transparent frames: isolate, skipgroup
    todo = {q: a.p.func(q) for q, c in FRAME_CLASSES.items() if c.startswith('transparent')}
    todo.update(derived_transparent)
    for _q, iso in sorted(todo.items()):
        _check_transparent(a, rep, iso)
    # wrapper: statescope re-raises every FailedParse of its body after undo
    ss = a.p.func(f'{CORE}.statescope')
    souts, _ = _scope_outcomes(a, ss)
    swallowed = [o for o in souts if o.kind == 'return' and any(x.startswith('closed:undo') for x in o.state[1])]
    rep.add({'wrapper': ss.qualname, 'swallows_failures': bool(swallowed)})
    if swallowed:
        rep.fail(ss.qualname, 'wrapper-swallows', 'statescope() can end normally after undo(): a failure (committed or not) '
                 'of a group/closure body is swallowed', ss.loc)
    return rep


def r4_join_commit(a, tier):
    rep = RuleReport(
        'C05.R4',
        'a join commits after each separator: in ParseContext.repeat, on every path on which the separator '
        '(isolate(prefix)) matched, cut() is called before the element (isolate(exp)) is evaluated, inside the same '
        'option() frame',
        floor=1,
    )
    fn = a.p.func(f'{CTX}.repeat')
    p_exp, p_prefix = fn.params[1], fn.params[2]

    def origin(f, e):
        """the parameter of repeat() that the expression E (a name in F, a function of repeat's extent) stands for"""
        return a.extents.param_origin(fn, f, e.id) if isinstance(e, ast.Name) else None

    def own(f, node, *names):
        """a call <receiver>.<name>(...) on the context itself: `self` in a method, the context parameter in a module-level helper"""
        parts = dotted(node.func).split('.')
        return len(parts) == 2 and parts[1] in names and parts[0] in ('self', 'ctx', *(f.params[:1]))

    class Sem(Semantics):
        def call(self, ex, f, node, state):
            nm = dotted(node.func)
            if ex.in_extent(f) and own(f, node, 'isolate', '_isolate') and node.args:
                arg = origin(f, node.args[0])
                if arg == p_prefix:
                    state = frozenset((state - {'cut'}) | {'sep'})
                elif arg == p_exp:
                    if 'sep' in state and 'cut' not in state:
                        state = frozenset(state | {'uncommitted'})
                    state = frozenset(state - {'sep', 'cut'})
            if ex.in_extent(f) and own(f, node, 'cut', '_cut'):
                state = frozenset(state | {'cut'})
            return ex.default_call(f, node, state)

    ex = Executor(a.p, a.ct, a.resolver, Sem(), raises=a.raises)
    outs = ex.run(fn, frozenset())
    bad = [o for o in outs if 'uncommitted' in o.state]
    has_sep = any(isinstance(n, ast.Call) and own(f, n, 'isolate', '_isolate') and n.args
                  and origin(f, n.args[0]) == p_prefix for f, n in a.extents.walk(fn))
    rep.add({'fn': fn.qualname, 'separator_param': p_prefix, 'element_param': p_exp, 'separator_evaluated': has_sep,
             'commit_before_element_on_all_paths': not bad})
    if not has_sep:
        rep.fail(fn.qualname, 'no-separator', 'repeat() no longer evaluates the separator through isolate(prefix)', fn.loc)
    if bad:
        rep.fail(fn.qualname, 'join-not-committed', 'a path evaluates the element after a matched separator without cut(): '
                 '`s%{e}` would backtrack over a trailing separator', fn.loc)
    return rep


def r5_commit_reaches_exit(a, tier):
    rep = RuleReport(
        'C05.R5',
        'a committed failure ends the repetition with a failure: a FailedParse that leaves repeat() has by construction passed the cut test '
        'of its iteration\'s option() frame (a join after its separator, an element after its own cut); in every function of the parse '
        'context that calls repeat() (closure, positive_closure) that failure must leave the function as a failure on every path - it must '
        'not depend on the cut flag of some other frame (an optional() around the call swallows it when that frame saw no cut: the '
        'repetition then "ends" and even loses the elements matched before)',
        floor=2,
    )
    ctx = a.p.cls(CTX)
    users = [m for m in ctx.methods.values() if m.name != 'repeat' and any(
        isinstance(n, ast.Call) and dotted(n.func) in ('self.repeat', 'self._repeat') for n in walk_no_defs(m.node))]
    for fn in sorted(users, key=lambda m: m.name):
        class Sem(ScopeSem):
            def call(self, ex, f, node, state):
                depth, flags = state
                if f is self.fn and dotted(node.func) in ('self.repeat', 'self._repeat'):
                    return [('next', state, None), ('raise', (depth, frozenset(flags | {'committed'})), Exc(FP, 'committed@repeat'))]
                return super().call(ex, f, node, state)
        sem = Sem(a, fn)
        ex = Executor(a.p, a.ct, a.resolver, sem, raises=a.raises)
        outs = ex.run(fn, (0, frozenset()))
        swallowed = [o for o in outs if 'committed' in o.state[1] and o.kind != 'raise']
        raised = [o for o in outs if 'committed' in o.state[1] and o.kind == 'raise']
        rep.add({'fn': fn.qualname, 'paths_on_which_a_committed_failure_ends_normally': len(swallowed), 'paths_on_which_it_fails': len(raised)})
        if swallowed or not raised:
            rep.fail(fn.qualname, 'commit-swallowed', f'{fn.name}(): a committed failure raised by repeat() can end as a normal return (it is caught by a scope '
                     f'construct around the call whose own frame saw no cut): `s%{{e}}` on `e s x` yields an empty list without consuming anything instead of failing', fn.loc)
    return rep


def r_chain(a, tier):
    return rule_chain(a, 'C05.R-CHAIN')


def r6_optimizer(a, tier):
    """the optimisation pass keeps every cut in its scope (nested choices are merged into their parent only when nothing in them can commit)"""
    from . import c01_optimizer
    rep = c01_optimizer.r11_optimizer(a, tier)
    rep.rule = 'C05.R6'
    for f in rep.findings:
        f.rule = 'C05.R6'
    rep.text = '[= C01.R11] ' + rep.text
    return rep


RULES = [r_chain, r1_flag_ownership, r2_scope_protocol, r3_frame_classification, r4_join_commit, r5_commit_reaches_exit, r6_optimizer]
