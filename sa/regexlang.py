"""Regular-language reasoning on regex *literals* of the repository (never on runtime values).

Patterns are parsed with the standard library's own regex parser (re._parser), turned into an
epsilon-NFA whose transitions carry character predicates, and decided over a finite
class-partitioned alphabet: characters of a pool are grouped by their signature with respect to
every predicate of the automata in a query; one representative per class.

Supported: literals, classes (ranges, categories, negation), ".", branches, groups (capturing or
not), greedy/lazy bounded and unbounded repeats, ^/$ anchors as whole-string anchors when they
sit at the ends.  Back-references, look-arounds and word boundaries raise Unsupported: the rule
using this module then reports ANALYSIS-ERROR instead of guessing.
"""
from __future__ import annotations

import re
import re._constants as C  # type: ignore
import re._parser as P  # type: ignore
from dataclasses import dataclass, field
from typing import Callable, Iterable

from .loader import AnalysisError


class Unsupported(AnalysisError):
    pass


POOL = [chr(i) for i in range(0, 128)] + ['\x85', '\xa0', 'é', 'ß', 'Ω', ' ', ' ', '　', '中', '٣', '\U0001F600']

Pred = Callable[[str], bool]


@dataclass
class NFA:
    n: int = 0
    eps: dict[int, set[int]] = field(default_factory=dict)
    trans: dict[int, list[tuple[Pred, int]]] = field(default_factory=dict)
    start: int = 0
    accept: int = 0
    preds: list[Pred] = field(default_factory=list)

    def new(self) -> int:
        self.n += 1
        return self.n - 1

    def add_eps(self, a: int, b: int) -> None:
        self.eps.setdefault(a, set()).add(b)

    def add(self, a: int, p: Pred, b: int) -> None:
        self.trans.setdefault(a, []).append((p, b))
        self.preds.append(p)

    def closure(self, states: Iterable[int]) -> frozenset[int]:
        seen = set(states)
        stack = list(seen)
        while stack:
            s = stack.pop()
            for t in self.eps.get(s, ()):
                if t not in seen:
                    seen.add(t)
                    stack.append(t)
        return frozenset(seen)

    def step(self, states: frozenset[int], ch: str) -> frozenset[int]:
        out = set()
        for s in states:
            for p, t in self.trans.get(s, ()):
                if p(ch):
                    out.add(t)
        return self.closure(out)

    def initial(self) -> frozenset[int]:
        return self.closure([self.start])

    def accepts(self, text: str) -> bool:
        cur = self.initial()
        for ch in text:
            cur = self.step(cur, ch)
            if not cur:
                return False
        return self.accept in cur


def _category(cat) -> Pred:
    name = str(cat)
    table = {
        'CATEGORY_DIGIT': lambda c: c.isdigit(),
        'CATEGORY_NOT_DIGIT': lambda c: not c.isdigit(),
        'CATEGORY_SPACE': lambda c: c.isspace(),
        'CATEGORY_NOT_SPACE': lambda c: not c.isspace(),
        'CATEGORY_WORD': lambda c: c.isalnum() or c == '_',
        'CATEGORY_NOT_WORD': lambda c: not (c.isalnum() or c == '_'),
    }
    if name not in table:
        raise Unsupported(f'regex category {name}')
    return table[name]


def _in_pred(items, ignorecase: bool) -> Pred:
    negate = False
    parts: list[Pred] = []
    for op, arg in items:
        if op is C.NEGATE:
            negate = True
        elif op is C.LITERAL:
            ch = chr(arg)
            parts.append((lambda c, ch=ch: c == ch) if not ignorecase else (lambda c, ch=ch: c.lower() == ch.lower()))
        elif op is C.RANGE:
            lo, hi = arg
            parts.append(lambda c, lo=lo, hi=hi: lo <= ord(c) <= hi)
        elif op is C.CATEGORY:
            parts.append(_category(arg))
        else:
            raise Unsupported(f'class item {op}')
    if negate:
        return lambda c: not any(p(c) for p in parts)
    return lambda c: any(p(c) for p in parts)


def _build(nfa: NFA, items, flags: int, first: bool, last: bool) -> tuple[int, int]:
    """Thompson construction for a sequence of parsed items; returns (entry, exit)."""
    entry = nfa.new()
    cur = entry
    items = list(items)
    dotall = bool(flags & re.DOTALL)
    ic = bool(flags & re.IGNORECASE)
    for i, (op, arg) in enumerate(items):
        nxt = nfa.new()
        if op is C.LITERAL:
            ch = chr(arg)
            nfa.add(cur, (lambda c, ch=ch: c == ch) if not ic else (lambda c, ch=ch: c.lower() == ch.lower()), nxt)
        elif op is C.NOT_LITERAL:
            ch = chr(arg)
            nfa.add(cur, lambda c, ch=ch: c != ch, nxt)
        elif op is C.ANY:
            nfa.add(cur, (lambda c: True) if dotall else (lambda c: c != '\n'), nxt)
        elif op is C.IN:
            nfa.add(cur, _in_pred(arg, ic), nxt)
        elif op is C.BRANCH:
            _, alts = arg
            for alt in alts:
                a, b = _build(nfa, alt, flags, first and i == 0, last and i == len(items) - 1)
                nfa.add_eps(cur, a)
                nfa.add_eps(b, nxt)
        elif op is C.SUBPATTERN:
            _group, add_flags, del_flags, sub = arg
            f2 = (flags | add_flags) & ~del_flags
            a, b = _build(nfa, sub, f2, first and i == 0, last and i == len(items) - 1)
            nfa.add_eps(cur, a)
            nfa.add_eps(b, nxt)
        elif op in (C.MAX_REPEAT, C.MIN_REPEAT, getattr(C, 'POSSESSIVE_REPEAT', None)):
            lo, hi, sub = arg
            prev = cur
            for _ in range(lo):
                a, b = _build(nfa, sub, flags, False, False)
                nfa.add_eps(prev, a)
                prev = b
            if hi is C.MAXREPEAT:
                a, b = _build(nfa, sub, flags, False, False)
                nfa.add_eps(prev, a)
                nfa.add_eps(b, a)
                nfa.add_eps(b, nxt)
                nfa.add_eps(prev, nxt)
            else:
                if hi - lo > 64:
                    raise Unsupported('bounded repeat too large')
                nfa.add_eps(prev, nxt)
                for _ in range(hi - lo):
                    a, b = _build(nfa, sub, flags, False, False)
                    nfa.add_eps(prev, a)
                    nfa.add_eps(b, nxt)
                    prev = b
        elif op is C.AT:
            name = str(arg)
            if name in ('AT_BEGINNING', 'AT_BEGINNING_STRING') and first and i == 0 and not (flags & re.MULTILINE and name == 'AT_BEGINNING'):
                nfa.add_eps(cur, nxt)
            elif name in ('AT_END', 'AT_END_STRING') and last and i == len(items) - 1 and not (flags & re.MULTILINE and name == 'AT_END'):
                nfa.add_eps(cur, nxt)
            else:
                raise Unsupported(f'anchor {name} inside the pattern')
        elif op is C.ATOMIC_GROUP if hasattr(C, 'ATOMIC_GROUP') else False:
            a, b = _build(nfa, arg, flags, False, False)
            nfa.add_eps(cur, a)
            nfa.add_eps(b, nxt)
        else:
            raise Unsupported(f'regex construct {op}')
        cur = nxt
    return entry, cur


def compile_nfa(pattern: str, flags: int = 0) -> NFA:
    try:
        parsed = P.parse(pattern, flags)
    except re.error as e:
        raise Unsupported(f'invalid regex {pattern!r}: {e}') from e
    nfa = NFA()
    a, b = _build(nfa, parsed, parsed.state.flags | flags, True, True)
    nfa.start, nfa.accept = a, b
    return nfa


def alphabet(*nfas: NFA, extra: str = '') -> list[str]:
    preds = [p for n in nfas for p in n.preds]
    seen: dict[tuple, str] = {}
    for ch in [*POOL, *extra]:
        sig = tuple(bool(p(ch)) for p in preds)
        seen.setdefault(sig, ch)
    return list(seen.values())


def find_in_difference(a: NFA, b: NFA, max_len: int = 12) -> str | None:
    """A shortest string in L(a) - L(b), or None (search exhaustive on the subset-construction product)."""
    sigma = alphabet(a, b)
    start = (a.initial(), b.initial())
    seen = {start: ''}
    frontier = [start]
    while frontier:
        nxt = []
        for sa, sb in frontier:
            w = seen[(sa, sb)]
            if a.accept in sa and b.accept not in sb:
                return w
            if len(w) >= max_len:
                continue
            for ch in sigma:
                ta = a.step(sa, ch)
                if not ta:
                    continue
                tb = b.step(sb, ch)
                key = (ta, tb)
                if key not in seen:
                    seen[key] = w + ch
                    nxt.append(key)
        frontier = nxt
    return None


def find_in_intersection(a: NFA, b: NFA, max_len: int = 12) -> str | None:
    sigma = alphabet(a, b)
    start = (a.initial(), b.initial())
    seen = {start: ''}
    frontier = [start]
    while frontier:
        nxt = []
        for sa, sb in frontier:
            w = seen[(sa, sb)]
            if a.accept in sa and b.accept in sb:
                return w
            if len(w) >= max_len:
                continue
            for ch in sigma:
                ta, tb = a.step(sa, ch), b.step(sb, ch)
                if not ta or not tb:
                    continue
                key = (ta, tb)
                if key not in seen:
                    seen[key] = w + ch
                    nxt.append(key)
        frontier = nxt
    return None


def included(a: NFA, b: NFA) -> tuple[bool, str | None]:
    w = find_in_difference(a, b)
    return (w is None), w


def matches_empty(a: NFA) -> bool:
    return a.accept in a.initial()
