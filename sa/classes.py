"""Static class table: C3 MRO, method resolution, subclass closure, dataclass fields."""
from __future__ import annotations

import ast
from dataclasses import dataclass
from functools import lru_cache

from .loader import AnalysisError, ClassInfo, FuncInfo, Project, ann_text, dotted

# External classes whose own bases matter to a rule.
EXTERNAL_BASES: dict[str, list[str]] = {
    'typing.Protocol': ['typing.Generic'],
    'typing.Generic': [],
    'typing.NamedTuple': ['builtins.tuple'],
    'builtins.Exception': ['builtins.BaseException'],
    'builtins.RuntimeError': ['builtins.Exception'],
    'builtins.ValueError': ['builtins.Exception'],
    'builtins.TypeError': ['builtins.Exception'],
    'builtins.KeyError': ['builtins.LookupError'],
    'builtins.IndexError': ['builtins.LookupError'],
    'builtins.LookupError': ['builtins.Exception'],
    'builtins.AttributeError': ['builtins.Exception'],
    'builtins.RecursionError': ['builtins.RuntimeError'],
    'builtins.NotImplementedError': ['builtins.RuntimeError'],
    'builtins.AssertionError': ['builtins.Exception'],
    'builtins.SyntaxError': ['builtins.Exception'],
    'builtins.OSError': ['builtins.Exception'],
    'builtins.StopIteration': ['builtins.Exception'],
    'builtins.ArithmeticError': ['builtins.Exception'],
    'builtins.ZeroDivisionError': ['builtins.ArithmeticError'],
    'builtins.OverflowError': ['builtins.ArithmeticError'],
    'builtins.UnicodeError': ['builtins.ValueError'],
    'builtins.UnicodeDecodeError': ['builtins.UnicodeError'],
    'builtins.ImportError': ['builtins.Exception'],
    'builtins.KeyboardInterrupt': ['builtins.BaseException'],
    'builtins.SystemExit': ['builtins.BaseException'],
    'builtins.GeneratorExit': ['builtins.BaseException'],
    'json.JSONDecodeError': ['builtins.ValueError'],
    'json.decoder.JSONDecodeError': ['builtins.ValueError'],
}


class ClassTable:
    def __init__(self, project: Project):
        self.p = project
        self._subs: dict[str, list[str]] | None = None

    def bases(self, q: str) -> list[str]:
        ci = self.p.classes.get(q)
        if ci is not None:
            return ci.bases or ['builtins.object']
        if q == 'builtins.object':
            return []
        return EXTERNAL_BASES.get(q, []) or ['builtins.object']

    @lru_cache(maxsize=None)
    def mro(self, q: str) -> tuple[str, ...]:
        bases = self.bases(q)
        if not bases:
            return (q,)
        seqs = [list(self.mro(b)) for b in bases] + [list(bases)]
        out = [q]
        while True:
            seqs = [s for s in seqs if s]
            if not seqs:
                return tuple(out)
            for s in seqs:
                cand = s[0]
                if not any(cand in t[1:] for t in seqs):
                    break
            else:
                raise AnalysisError(f'inconsistent MRO for {q}')
            out.append(cand)
            for s in seqs:
                if s and s[0] == cand:
                    del s[0]

    def is_subclass(self, q: str, base: str) -> bool:
        return base in self.mro(q)

    def subclasses(self, q: str, strict: bool = False) -> list[str]:
        out = [c for c in self.p.classes if self.is_subclass(c, q)]
        if strict:
            out = [c for c in out if c != q]
        return out

    def lookup(self, q: str, name: str) -> FuncInfo | None:
        """Method NAME as resolved on class Q through its MRO (following `a = b` aliases)."""
        for c in self.mro(q):
            ci = self.p.classes.get(c)
            if ci is None:
                continue
            if name in ci.methods:
                return ci.methods[name]
            if name in ci.assigns:
                v = ci.assigns[name]
                if isinstance(v, ast.Name) and v.id in ci.methods:
                    return ci.methods[v.id]
                if isinstance(v, ast.Name) and v.id != name:
                    r = self.lookup(q, v.id)
                    if r is not None:
                        return r
                return None
        return None

    def lookup_attr_owner(self, q: str, name: str) -> str | None:
        """Class in Q's MRO that defines attribute NAME (method, assignment or annotation)."""
        for c in self.mro(q):
            ci = self.p.classes.get(c)
            if ci is None:
                continue
            if name in ci.methods or name in ci.assigns or name in ci.annotations:
                return c
        return None

    def overriders(self, q: str, name: str) -> list[FuncInfo]:
        """All implementations a call `self.NAME()` on a static receiver Q can reach:
        the MRO resolution plus every override in a subclass."""
        seen: dict[str, FuncInfo] = {}
        r = self.lookup(q, name)
        if r is not None:
            seen[r.qualname] = r
        for s in self.subclasses(q, strict=True):
            r = self.lookup(s, name)
            if r is not None:
                seen.setdefault(r.qualname, r)
        return list(seen.values())


@dataclass
class DField:
    name: str
    annotation: str
    init: bool
    has_default: bool
    default: ast.expr | None
    owner: str


def dataclass_fields(ct: ClassTable, q: str) -> list[DField]:
    """Fields of a (node)dataclass in definition order through the MRO (later overrides earlier)."""
    fields: dict[str, DField] = {}
    for c in reversed(ct.mro(q)):
        ci = ct.p.classes.get(c)
        if ci is None:
            continue
        for item in ci.node.body:
            if not (isinstance(item, ast.AnnAssign) and isinstance(item.target, ast.Name)):
                continue
            ann = ann_text(item.annotation)
            if ann.startswith('ClassVar'):
                continue
            init, has_default, default = True, item.value is not None, item.value
            v = item.value
            if isinstance(v, ast.Call) and dotted(v.func).split('.')[-1] == 'field':
                has_default = False
                for kw in v.keywords:
                    if kw.arg == 'init' and isinstance(kw.value, ast.Constant):
                        init = bool(kw.value.value)
                    if kw.arg in ('default', 'default_factory'):
                        has_default = True
                        default = kw.value
            fields[item.target.id] = DField(item.target.id, ann, init, has_default, default, c)
    return list(fields.values())
