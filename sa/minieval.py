"""A whitelisted evaluator for small pure predicates/helpers of the repository.

It interprets the *AST* of a repo function over values supplied by the checker (a closed,
finite universe such as the interpreter's builtin namespace, or abstract kind tokens).
Only the node kinds and operations listed here are accepted; anything else raises
Unsupported -> the rule reports ANALYSIS-ERROR (exit 2) instead of guessing.
No repository code object is ever executed.
"""
from __future__ import annotations

import ast
from typing import Any, Callable

from .loader import AnalysisError


class Unsupported(AnalysisError):
    pass


import types as _t
_MPT = _t.MappingProxyType


class _Return(Exception):
    def __init__(self, value):
        self.value = value


class Raised(Exception):
    """The interpreted code executed a `raise`."""

    def __init__(self, cls_name: str, node: ast.AST):
        super().__init__(cls_name)
        self.cls_name = cls_name
        self.node = node


_PURE_BUILTIN_VALUES = frozenset({'repr', 'str', 'len', 'int', 'float', 'bool', 'abs', 'min', 'max', 'sum', 'sorted', 'ord', 'chr', 'tuple', 'list'})
SAFE_STR_METHODS = {'isdecimal', 'isnumeric', 'isspace', 'isascii', 'startswith', 'endswith', 'lower', 'upper', 'strip', 'lstrip', 'rstrip', 'isidentifier',
                    'isalpha', 'isalnum', 'isupper', 'islower', 'isdigit', 'split', 'rsplit', 'casefold',
                    'removeprefix', 'removesuffix', 'capitalize', 'title', 'replace', 'join', 'splitlines', 'isdigit', 'isupper',
                    'count', 'find', 'index', 'format', 'zfill', 'ljust', 'rjust', 'center', 'expandtabs', 'partition', 'rpartition'}


class Obj:
    """A checker-made object whose attributes the interpreted code may read and write;
    `_methods` maps method names to repo FunctionDef nodes interpreted with self bound."""

    def __init__(self, _methods: dict | None = None, **attrs):
        object.__setattr__(self, '_methods', _methods or {})
        for k, v in attrs.items():
            object.__setattr__(self, k, v)


def _bind_star(fn: ast.FunctionDef, params: list, args: list, kwargs: dict | None, env: dict) -> None:
    """*args / **kwargs parameters"""
    if fn.args.vararg is not None:
        env[fn.args.vararg.arg] = tuple(args[len(params):])
    if fn.args.kwarg is not None:
        named = set(params) | {k.arg for k in fn.args.kwonlyargs}
        env[fn.args.kwarg.arg] = {k: v for k, v in (kwargs or {}).items() if k not in named}


class MiniEval:
    def __init__(self, globals_: dict[str, Any], *, calls: dict[str, Callable] | None = None,
                 methods: Callable[[Any, str, list, dict], Any] | None = None):
        self.globals = globals_
        self.calls = calls or {}
        self.methods = methods
        self.steps = 0

    # --------------------------------------------------------------- function
    def call_function(self, fn: ast.FunctionDef, args: list, kwargs: dict | None = None) -> Any:
        q_ = getattr(fn, '_qualname', None)
        if q_:
            from .loader import EXECUTED
            EXECUTED.add(q_)
        env: dict[str, Any] = {}
        params = [a.arg for a in (*fn.args.posonlyargs, *fn.args.args)]
        defaults = fn.args.defaults
        for i, name in enumerate(params):
            if i < len(args):
                env[name] = args[i]
            elif kwargs and name in kwargs:
                env[name] = kwargs[name]
            else:
                j = i - (len(params) - len(defaults))
                if j < 0:
                    raise Unsupported(f'missing argument {name}')
                env[name] = self.expr(defaults[j], {})
        for a, d in zip(fn.args.kwonlyargs, fn.args.kw_defaults):
            if kwargs and a.arg in kwargs:
                env[a.arg] = kwargs[a.arg]
            elif d is not None:
                env[a.arg] = self.expr(d, {})
            else:
                raise Unsupported(f'missing kw argument {a.arg}')
        _bind_star(fn, params, args, kwargs, env)
        if _is_generator(fn):
            # eager semantics: the yielded values are collected (sound for generators without side effects
            # that are consumed by iteration; a consumer that stops early only sees a prefix)
            env['__yields__'] = []
            try:
                self.block(fn.body, env)
            except _Return:
                pass
            return env['__yields__']
        try:
            self.block(fn.body, env)
        except _Return as r:
            return r.value
        return None

    def _mark_defmodule(self, env: dict) -> None:
        """a nested function / lambda reads the module-level names of the module it is DEFINED in, whoever calls it"""
        ms = getattr(self, 'modstack', None)
        if ms and '__defmodule__' not in env:
            env['__defmodule__'] = ms[-1]

    def _call_closure(self, node, cenv, args, kwargs):
        saved = self.globals
        ms = getattr(self, 'modstack', None)
        pushed = ms is not None and cenv.get('__defmodule__') is not None
        if pushed:
            ms.append(cenv['__defmodule__'])
        try:
            self.globals = {**saved, **dict(cenv)}
            return self.call_function(node, list(args), kwargs)
        finally:
            self.globals = saved
            if pushed:
                ms.pop()

    def as_callable(self, v: Any) -> Callable:
        """a Python callable for an interpreted function value (key= of sorted/min/max)"""
        if isinstance(v, tuple) and v[:1] == ('<func>',):
            _, node, cenv = v

            def call(*a, **k):
                return self._call_closure(node, cenv, a, k)
            return call
        if callable(v):
            return v
        raise Unsupported(f'not a callable value: {type(v).__name__}')

    def block(self, stmts: list[ast.stmt], env: dict) -> None:
        for s in stmts:
            self.stmt(s, env)

    def stmt(self, s: ast.stmt, env: dict) -> None:
        self.steps += 1
        if self.steps > 200000:
            raise Unsupported('step budget exceeded')
        if isinstance(s, ast.Return):
            raise _Return(self.expr(s.value, env) if s.value is not None else None)
        if isinstance(s, ast.Try) and type(self) is MiniEval or isinstance(s, ast.Try) and not hasattr(self, '_exc_matches'):
            # try/except over builtin exception classes (subclasses with a class table have their own)
            import builtins as _b
            try:
                self.block(s.body, env)
            except Raised as r:
                short = r.cls_name.split('(')[0].split('.')[-1]
                bs = getattr(_b, short, None)
                for h in s.handlers:
                    names = [] if h.type is None else [ast.unparse(t).split('.')[-1] for t in (h.type.elts if isinstance(h.type, ast.Tuple) else [h.type])]
                    hit = h.type is None or short in names or any(
                        isinstance(bs, type) and isinstance(getattr(_b, n, None), type) and issubclass(bs, getattr(_b, n)) for n in names)
                    if hit:
                        if h.name:
                            env[h.name] = r
                        self.block(h.body, env)
                        break
                else:
                    raise
            else:
                self.block(s.orelse, env)
            finally:
                if s.finalbody:
                    self.block(s.finalbody, env)
            return
        if isinstance(s, ast.Expr):
            if isinstance(s.value, ast.Constant):
                return
            if isinstance(s.value, ast.Yield) and '__yields__' in env:
                env['__yields__'].append(self.expr(s.value.value, env) if s.value.value is not None else None)
                return
            if isinstance(s.value, ast.YieldFrom) and '__yields__' in env:
                env['__yields__'].extend(list(self.expr(s.value.value, env)))
                return
            self.expr(s.value, env)
            return
        if isinstance(s, ast.Assign):
            v = self.expr(s.value, env)
            for t in s.targets:
                self.assign(t, v, env)
            return
        if isinstance(s, ast.AnnAssign):
            if s.value is not None:
                self.assign(s.target, self.expr(s.value, env), env)
            return
        if isinstance(s, ast.If):
            if self.truth(self.expr(s.test, env)):
                self.block(s.body, env)
            else:
                self.block(s.orelse, env)
            return
        if isinstance(s, ast.For):
            for item in self.expr(s.iter, env):
                self.assign(s.target, item, env)
                try:
                    self.block(s.body, env)
                except _Break:
                    break
                except _Continue:
                    continue
            else:
                self.block(s.orelse, env)
            return
        if isinstance(s, ast.While):
            n = 0
            while self.truth(self.expr(s.test, env)):
                n += 1
                if n > 10000:
                    raise Unsupported('loop bound exceeded')
                try:
                    self.block(s.body, env)
                except _Break:
                    break
                except _Continue:
                    continue
            else:
                self.block(s.orelse, env)
            return
        if isinstance(s, ast.AugAssign):
            cur = self.expr(s.target, env)
            self.assign(s.target, self.binop(s.op, cur, self.expr(s.value, env)), env)
            return
        if isinstance(s, ast.Delete):
            for t in s.targets:
                if isinstance(t, ast.Subscript):
                    base = self.expr(t.value, env)
                    if type(base) not in (dict, list):
                        raise Unsupported(f'del on {type(base).__name__}')
                    if isinstance(t.slice, ast.Slice):
                        lo = self.expr(t.slice.lower, env) if t.slice.lower else None
                        hi = self.expr(t.slice.upper, env) if t.slice.upper else None
                        del base[lo:hi]
                    else:
                        del base[self.expr(t.slice, env)]
                elif isinstance(t, ast.Name):
                    env.pop(t.id, None)
                else:
                    raise Unsupported('del target')
            return
        if isinstance(s, ast.Break):
            raise _Break()
        if isinstance(s, ast.Continue):
            raise _Continue()
        if isinstance(s, ast.Pass):
            return
        if isinstance(s, ast.Raise):
            name = '?'
            if s.exc is not None:
                e = s.exc.func if isinstance(s.exc, ast.Call) else s.exc
                name = ast.unparse(e)
            raise Raised(name, s)
        if isinstance(s, ast.FunctionDef):
            self._mark_defmodule(env)
            env[s.name] = ('<func>', s, env)
            return
        if isinstance(s, ast.Match):
            subj = self.expr(s.subject, env)
            for case in s.cases:
                if self.match(case.pattern, subj, env) and (case.guard is None or self.truth(self.expr(case.guard, env))):
                    self.block(case.body, env)
                    return
            return
        raise Unsupported(f'statement {type(s).__name__} at line {s.lineno}')

    def match(self, pat: ast.pattern, subj: Any, env: dict) -> bool:
        if isinstance(pat, ast.MatchAs):
            if pat.pattern is not None and not self.match(pat.pattern, subj, env):
                return False
            if pat.name:
                env[pat.name] = subj
            return True
        if isinstance(pat, ast.MatchOr):
            return any(self.match(p, subj, env) for p in pat.patterns)
        if isinstance(pat, ast.MatchClass):
            if pat.patterns or pat.kwd_patterns:
                raise Unsupported('class pattern with sub-patterns')
            cls = self.expr(pat.cls, env)
            return self.isinstance_(subj, cls)
        if isinstance(pat, ast.MatchValue):
            return subj == self.expr(pat.value, env)
        if isinstance(pat, ast.MatchSingleton):
            return subj is pat.value
        if isinstance(pat, ast.MatchSequence):
            if not isinstance(subj, (list, tuple)):
                return False
            pats = pat.patterns
            star = next((i for i, p_ in enumerate(pats) if isinstance(p_, ast.MatchStar)), None)
            if star is None:
                if len(subj) != len(pats):
                    return False
                return all(self.match(p_, x, env) for p_, x in zip(pats, subj))
            head, tail = pats[:star], pats[star + 1:]
            if len(subj) < len(head) + len(tail):
                return False
            if not all(self.match(p_, x, env) for p_, x in zip(head, subj)):
                return False
            if tail and not all(self.match(p_, x, env) for p_, x in zip(tail, subj[len(subj) - len(tail):])):
                return False
            if pats[star].name:
                env[pats[star].name] = list(subj[len(head):len(subj) - len(tail)])
            return True
        if isinstance(pat, ast.MatchMapping):
            if not isinstance(subj, dict):
                return False
            keys = [self.expr(k, env) for k in pat.keys]
            if not all(k in subj for k in keys):
                return False
            if not all(self.match(p_, subj[k], env) for k, p_ in zip(keys, pat.patterns)):
                return False
            if pat.rest:
                env[pat.rest] = {k: v for k, v in subj.items() if k not in keys}
            return True
        raise Unsupported(f'pattern {type(pat).__name__}')

    def assign(self, t: ast.expr, v: Any, env: dict) -> None:
        if isinstance(t, ast.Name):
            env[t.id] = v
        elif isinstance(t, ast.Attribute):
            base = self.expr(t.value, env)
            if not isinstance(base, Obj):
                raise Unsupported(f'attribute store on {type(base).__name__}')
            object.__setattr__(base, t.attr, v)
        elif isinstance(t, ast.Subscript):
            base = self.expr(t.value, env)
            if type(base) not in (dict, list):
                raise Unsupported(f'subscript store on {type(base).__name__}')
            base[self.expr(t.slice, env)] = v
        elif isinstance(t, (ast.Tuple, ast.List)):
            vals = list(v)
            if len(vals) != len(t.elts):
                raise Unsupported('unpack arity')
            for e, x in zip(t.elts, vals):
                self.assign(e, x, env)
        else:
            raise Unsupported(f'assignment target {type(t).__name__}')

    def _builtin_method(self, node, recv, name, args, kwargs):
        """a method of a builtin value, run by the host; what it raises for these operands the interpreted program raises"""
        try:
            return getattr(recv, name)(*args, **kwargs)
        except (TypeError, ValueError, IndexError, KeyError) as ex:
            raise Raised(type(ex).__name__, node) from None

    # ------------------------------------------------------------ expressions
    def truth(self, v: Any) -> bool:
        return bool(v)

    def isinstance_(self, v: Any, cls: Any) -> bool:
        return isinstance(v, cls)

    def lookup(self, name: str, env: dict) -> Any:
        if name in env:
            return env[name]
        if name in self.globals:
            return self.globals[name]
        if name in _BUILTIN_TYPES:
            return _BUILTIN_TYPES[name]
        if name in _ABC_TYPES:
            return _ABC_TYPES[name]  # only usable in isinstance(): the abstract container classes of collections.abc
        if name in _PURE_BUILTIN_VALUES:
            import builtins
            return getattr(builtins, name)  # a pure builtin handed on as a value: map(repr, xs), key=len
        raise Unsupported(f'name {name!r} not in the evaluation environment')

    def expr(self, e: ast.expr, env: dict) -> Any:
        self.steps += 1
        if isinstance(e, ast.Constant):
            return e.value
        if isinstance(e, ast.Name):
            return self.lookup(e.id, env)
        if isinstance(e, (ast.Tuple, ast.List, ast.Set)):
            items: list = []
            for x in e.elts:
                if isinstance(x, ast.Starred):
                    items.extend(self.expr(x.value, env))
                else:
                    items.append(self.expr(x, env))
            if isinstance(e, ast.Tuple):
                return tuple(items)
            return items if isinstance(e, ast.List) else set(items)
        if isinstance(e, ast.Dict):
            out: dict = {}
            for k, v in zip(e.keys, e.values):
                if k is None:
                    out.update(self.expr(v, env))  # {**mapping}
                else:
                    out[self.expr(k, env)] = self.expr(v, env)
            return out
        if isinstance(e, ast.BoolOp):
            if isinstance(e.op, ast.And):
                v = True
                for x in e.values:
                    v = self.expr(x, env)
                    if not self.truth(v):
                        return v
                return v
            v = False
            for x in e.values:
                v = self.expr(x, env)
                if self.truth(v):
                    return v
            return v
        if isinstance(e, ast.UnaryOp):
            v = self.expr(e.operand, env)
            if isinstance(e.op, ast.Not):
                return not self.truth(v)
            if isinstance(e.op, ast.USub):
                return -v
            raise Unsupported('unary op')
        if isinstance(e, ast.IfExp):
            return self.expr(e.body, env) if self.truth(self.expr(e.test, env)) else self.expr(e.orelse, env)
        if isinstance(e, ast.Compare):
            left = self.expr(e.left, env)
            for op, comp in zip(e.ops, e.comparators):
                right = self.expr(comp, env)
                if not self.compare(op, left, right):
                    return False
                left = right
            return True
        if isinstance(e, ast.BinOp):
            l, r = self.expr(e.left, env), self.expr(e.right, env)
            return self.binop(e.op, l, r)
        if isinstance(e, ast.Subscript):
            v = self.expr(e.value, env)
            if isinstance(e.slice, ast.Slice):
                lo = self.expr(e.slice.lower, env) if e.slice.lower else None
                hi = self.expr(e.slice.upper, env) if e.slice.upper else None
                return v[lo:hi]
            try:
                return v[self.expr(e.slice, env)]
            except (KeyError, IndexError) as ex:
                if type(v) in (dict, list, tuple, str) or isinstance(v, (dict, list)):
                    raise Raised(type(ex).__name__, e) from None  # the interpreted program raises
                raise
        if isinstance(e, ast.Starred):
            raise Unsupported('starred outside display')
        if isinstance(e, ast.Call):
            return self.call(e, env)
        if isinstance(e, ast.Lambda):
            fdef = ast.FunctionDef(name='<lambda>', args=e.args, body=[ast.Return(value=e.body, lineno=e.lineno, col_offset=0)],
                                   decorator_list=[], lineno=e.lineno, col_offset=0)
            self._mark_defmodule(env)
            return ('<func>', fdef, env)
        if isinstance(e, ast.NamedExpr):
            v = self.expr(e.value, env)
            self.assign(e.target, v, env)
            return v
        if isinstance(e, ast.JoinedStr):
            parts = []
            for v in e.values:
                if isinstance(v, ast.Constant):
                    parts.append(str(v.value))
                    continue
                val = self.expr(v.value, env)
                if not isinstance(val, (str, int, float, bool, type(None))):
                    return '<fstring>'  # opaque operand: only the fact that a string is built matters
                spec = self.expr(v.format_spec, env) if v.format_spec is not None else ''
                if v.conversion == ord('r'):
                    val = repr(val)
                elif v.conversion == ord('s'):
                    val = str(val)
                parts.append(format(val, spec))
            return ''.join(parts)
        if isinstance(e, ast.Attribute):
            return self.attribute(e, env)
        if isinstance(e, (ast.ListComp, ast.SetComp, ast.GeneratorExp, ast.DictComp)):
            return self.comprehension(e, env)
        raise Unsupported(f'expression {type(e).__name__} at line {getattr(e, "lineno", "?")}')

    def attribute(self, e: ast.Attribute, env: dict) -> Any:
        base = self.expr(e.value, env)
        if isinstance(base, Obj) and not e.attr.startswith('__'):
            if hasattr(base, e.attr):
                return getattr(base, e.attr)
            raise Unsupported(f'attribute {e.attr!r} not modelled on checker object')
        raise Unsupported(f'attribute access {ast.unparse(e)}')

    def comprehension(self, e, env: dict) -> Any:
        out: list = []

        def rec(i: int, env2: dict):
            if i == len(e.generators):
                if isinstance(e, ast.DictComp):
                    out.append((self.expr(e.key, env2), self.expr(e.value, env2)))
                else:
                    out.append(self.expr(e.elt, env2))
                return
            g = e.generators[i]
            for item in self.expr(g.iter, env2):
                env3 = dict(env2)
                self.assign(g.target, item, env3)
                if all(self.truth(self.expr(c, env3)) for c in g.ifs):
                    rec(i + 1, env3)

        rec(0, dict(env))
        if isinstance(e, ast.DictComp):
            return dict(out)
        if isinstance(e, ast.SetComp):
            return set(out)
        return out

    def compare(self, op: ast.cmpop, l: Any, r: Any) -> bool:
        if isinstance(op, ast.In):
            return l in r
        if isinstance(op, ast.NotIn):
            return l not in r
        if isinstance(op, ast.Eq):
            return l == r
        if isinstance(op, ast.NotEq):
            return l != r
        if isinstance(op, ast.Is):
            return l is r
        if isinstance(op, ast.IsNot):
            return l is not r
        if isinstance(op, ast.Lt):
            return l < r
        if isinstance(op, ast.LtE):
            return l <= r
        if isinstance(op, ast.Gt):
            return l > r
        if isinstance(op, ast.GtE):
            return l >= r
        raise Unsupported('comparison')

    def binop(self, op: ast.operator, l: Any, r: Any) -> Any:
        if isinstance(op, ast.BitOr):
            if isinstance(l, type) or isinstance(r, type) or isinstance(l, tuple) or isinstance(r, tuple):
                lt = l if isinstance(l, tuple) else (l,)
                rt = r if isinstance(r, tuple) else (r,)
                return lt + rt
            return l | r
        if isinstance(op, ast.Add):
            return l + r
        if isinstance(op, ast.Sub):
            return l - r
        if isinstance(op, ast.BitAnd):
            return l & r
        if isinstance(op, ast.Mult):
            return l * r
        if isinstance(op, ast.Mod) and not isinstance(l, str):
            return l % r
        if isinstance(op, ast.Pow) and isinstance(l, int) and isinstance(r, int) and 0 <= r <= 64 and abs(l) <= 1024:
            return l ** r
        if isinstance(op, ast.FloorDiv) and isinstance(l, (int, float)) and isinstance(r, (int, float)) and r:
            return l // r
        if isinstance(op, ast.Div) and isinstance(l, (int, float)) and isinstance(r, (int, float)) and r:
            return l / r
        raise Unsupported(f'binary operator {type(op).__name__}')

    def call(self, e: ast.Call, env: dict) -> Any:
        args = []
        for a in e.args:
            if isinstance(a, ast.Starred):
                args.extend(self.expr(a.value, env))
            else:
                args.append(self.expr(a, env))
        kwargs = {}
        for k in e.keywords:
            if k.arg is None:
                kwargs.update(self.expr(k.value, env))
            else:
                kwargs[k.arg] = self.expr(k.value, env)
        f = e.func
        if isinstance(f, ast.Name):
            fv = env.get(f.id, self.globals.get(f.id))
            if isinstance(fv, tuple) and fv[:1] == ('<func>',):
                _, node, cenv = fv
                return self._call_closure(node, cenv, args, kwargs)
            if f.id in self.calls:
                return self.calls[f.id](*args, **kwargs)
            if isinstance(fv, type):
                return fv(*args, **kwargs)  # a checker-supplied class (stand-in for a repo class)
            if f.id == 'isinstance' and len(args) == 2:
                return self.isinstance_(args[0], args[1])
            if f.id in ('len', 'bool', 'str', 'tuple', 'list', 'set', 'frozenset', 'dict', 'sorted', 'any', 'all',
                        'callable', 'issubclass', 'min', 'max', 'repr', 'int', 'float', 'enumerate', 'zip', 'range', 'reversed', 'sum', 'abs', 'ord', 'chr', 'divmod'):
                import builtins
                if 'key' in kwargs and f.id in ('sorted', 'min', 'max'):
                    kwargs = {**kwargs, 'key': self.as_callable(kwargs['key'])}
                return getattr(builtins, f.id)(*args, **kwargs)
            if f.id in ('map', 'filter') and args and f.id not in self.globals:
                fn_ = (lambda x: x) if args[0] is None else self.as_callable(args[0])
                return list(map(fn_, *args[1:])) if f.id == 'map' else [x for x in args[1] if fn_(x)]  # eager: the interpreted code only iterates it
            if f.id == 'iter' and len(args) == 1 and type(args[0]) in (list, tuple, str, dict, set, frozenset, range):
                return iter(args[0])
            if f.id == 'next' and args and type(args[0]).__name__.endswith('iterator'):
                try:
                    return next(args[0])
                except StopIteration:
                    if len(args) > 1:
                        return args[1]
                    raise Raised('StopIteration', e) from None
            raise Unsupported(f'call of {f.id!r}')
        if isinstance(f, ast.Attribute):
            recv = self.expr(f.value, env)
            if isinstance(recv, Obj) and f.attr in recv._methods:
                mnode = recv._methods[f.attr]
                static = any(isinstance(d, ast.Name) and d.id == 'staticmethod' for d in getattr(mnode, 'decorator_list', []))
                return self.call_function(mnode, list(args) if static else [recv, *args], kwargs)
            if self.methods is not None:
                r = self.methods(recv, f.attr, args, kwargs)
                if r is not NotImplemented:
                    return r
            if isinstance(recv, str) and f.attr in SAFE_STR_METHODS:
                return self._builtin_method(e, recv, f.attr, args, kwargs)
            if isinstance(recv, (dict, _MPT)) and f.attr in ('items', 'keys', 'values', 'get'):
                return self._builtin_method(e, recv, f.attr, args, kwargs)
            if isinstance(recv, (set, frozenset)) and f.attr in ('union', 'intersection', 'difference', 'issubset', 'copy'):
                return self._builtin_method(e, recv, f.attr, args, kwargs)
            if type(recv) is set and f.attr in ('add', 'discard', 'remove', 'update', 'clear', 'pop'):
                return self._builtin_method(e, recv, f.attr, args, kwargs)
            if isinstance(recv, list) and f.attr in ('append', 'extend', 'pop', 'insert', 'copy', 'index', 'count', 'clear', 'sort', 'reverse'):
                return self._builtin_method(e, recv, f.attr, args, kwargs)
            if type(recv) is dict and f.attr in ('setdefault', 'update', 'pop', 'copy', 'clear'):
                return self._builtin_method(e, recv, f.attr, args, kwargs)
            if isinstance(recv, tuple) and hasattr(recv, '_fields') and f.attr in ('_replace', '_asdict'):
                return self._builtin_method(e, recv, f.attr, args, kwargs)  # a record (namedtuple): a copy with fields replaced
            if isinstance(recv, tuple) and f.attr in ('index', 'count'):
                return self._builtin_method(e, recv, f.attr, args, kwargs)
            if recv is dict and f.attr == 'fromkeys':
                return dict.fromkeys(*args)
            raise Unsupported(f'method call .{f.attr} on {type(recv).__name__}')
        if isinstance(f, (ast.Call, ast.Subscript, ast.IfExp)):
            fv = self.expr(f, env)
            if isinstance(fv, tuple) and fv[:1] == ('<func>',):
                return self.as_callable(fv)(*args, **kwargs)
            if callable(fv) and (not isinstance(fv, type) or fv in _BUILTIN_TYPES.values()):
                return fv(*args, **kwargs)
        raise Unsupported('call form')


_BUILTIN_TYPES = {'type': type, 'bytearray': bytearray, 'object': object, 'complex': complex, 'range': range, 'list': list, 'set': set, 'dict': dict, 'tuple': tuple, 'str': str, 'int': int, 'float': float,
                  'bool': bool, 'Exception': Exception, 'BaseException': BaseException, 'ValueError': ValueError, 'SyntaxError': SyntaxError,
                  'TypeError': TypeError, 'KeyError': KeyError, 'IndexError': IndexError, 'AttributeError': AttributeError, 'StopIteration': StopIteration,
                  'RuntimeError': RuntimeError, 'OverflowError': OverflowError, 'LookupError': LookupError, 'ArithmeticError': ArithmeticError,
                  'ZeroDivisionError': ZeroDivisionError, 'NotImplementedError': NotImplementedError, 'OSError': OSError, 'RecursionError': RecursionError,
                  'AssertionError': AssertionError, 'UnicodeDecodeError': UnicodeDecodeError, 'frozenset': frozenset, 'bytes': bytes, 'True': True, 'False': False, 'None': None}


def _is_generator(fn) -> bool:
    stack = list(fn.body)
    while stack:
        n = stack.pop()
        if isinstance(n, (ast.Yield, ast.YieldFrom)):
            return True
        if isinstance(n, (ast.FunctionDef, ast.AsyncFunctionDef, ast.ClassDef, ast.Lambda)):
            continue
        stack.extend(ast.iter_child_nodes(n))
    return False


class _Break(Exception):
    pass


class _Continue(Exception):
    pass

import collections.abc as _abc  # noqa: E402

_ABC_TYPES = {n: getattr(_abc, n) for n in ('Collection', 'Container', 'Sized', 'Iterable', 'Iterator', 'Sequence', 'MutableSequence',
                                            'Mapping', 'MutableMapping', 'Set', 'MutableSet', 'Hashable', 'Callable')}


def mro_methods(a, qual: str, skip=()) -> dict:
    """Plain methods (no properties) of class QUAL and its repository bases, nearest definition first: for the `_methods` table
    of an Obj standing for an instance, so that a helper method the code under interpretation calls on `self` is interpreted too."""
    out: dict = {}
    for c in a.ct.mro(qual):
        ci = a.p.classes.get(c)
        if ci is None:
            continue
        for n, m in ci.methods.items():
            if n in out or n in skip:
                continue
            if any(d.split('.')[-1] in ('property', 'cached_property', 'contextmanager', 'setter') for d in m.decorators):
                continue
            out[n] = m.node
    return out


def module_constants(mod) -> dict:
    """Values of the module-level constant tables of MOD, in definition order: literals, container constructors over
    literals, and expressions over constants defined earlier in the module (dict(_PAIRS), frozenset(_A) | {...}, ...)."""
    from .loader import const_eval
    consts: dict = {}
    import types as _types
    wrappers: dict = {}  # read-only views: `from types import MappingProxyType [as X]`
    for node in mod.tree.body:
        if isinstance(node, ast.ImportFrom) and node.module == 'types':
            for al in node.names:
                if al.name == 'MappingProxyType':
                    wrappers[al.asname or al.name] = _types.MappingProxyType
    for node in mod.tree.body:
        if isinstance(node, ast.Assign) and len(node.targets) == 1 and isinstance(node.targets[0], ast.Name):
            name, val = node.targets[0].id, node.value
        elif isinstance(node, ast.AnnAssign) and isinstance(node.target, ast.Name) and node.value is not None:
            name, val = node.target.id, node.value
        else:
            continue
        try:
            consts[name] = const_eval(val)
            continue
        except ValueError:
            pass
        if any(isinstance(x, (ast.Lambda, ast.Await, ast.Yield)) for x in ast.walk(val)):
            continue
        if (isinstance(val, ast.Call) and isinstance(val.func, ast.Attribute) and isinstance(val.func.value, ast.Name)
                and val.func.value.id == 're' and val.func.attr == 'compile' and not val.keywords):
            # a hoisted pattern: `_X_RE = re.compile(<literal>[, re.FLAG | ...])`
            import re as _re
            try:
                args = [const_eval(x) if not any(isinstance(y, ast.Attribute) for y in ast.walk(x))
                        else MiniEval({'re': _re}).expr(x, {}) for x in val.args]
                consts[name] = _re.compile(*args)
            except Exception:  # noqa: BLE001 - not a constant pattern
                pass
            continue
        calls = [x for x in ast.walk(val) if isinstance(x, ast.Call)]
        if any(not (isinstance(c.func, ast.Name) and (c.func.id in ('dict', 'frozenset', 'set', 'tuple', 'list', 'sorted', 'len', 'max', 'min', 'range')
                                                          or c.func.id in wrappers)) for c in calls):
            continue
        try:
            consts[name] = MiniEval({**consts, **wrappers}).expr(val, {})
        except Exception:  # noqa: BLE001 - not a constant expression
            continue
    return consts
