"""Whole-package call graph over resolved callees (static, over-approximate for typed receivers)."""
from __future__ import annotations

import ast
from collections import deque

from .context import Analysis
from .loader import FuncInfo, walk_no_defs


class CallGraph:
    def __init__(self, a: Analysis):
        self.a = a
        self._edges: dict[str, list[tuple[str, int, str]]] = {}
        self.unresolved: dict[str, list[tuple[int, str]]] = {}

    def edges(self, fn: FuncInfo) -> list[tuple[str, int, str]]:
        """[(callee qualname, call line, kind)]"""
        q = fn.qualname
        if q in self._edges:
            return self._edges[q]
        out: list[tuple[str, int, str]] = []
        unres: list[tuple[int, str]] = []
        for n in walk_no_defs(fn.node):
            if isinstance(n, ast.Call):
                r = self.a.resolver.resolve_call(fn, n)
                if r.kind in ('project', 'class'):
                    for t in r.targets:
                        out.append((t.qualname, n.lineno, r.kind))
                elif r.kind == 'unresolved':
                    unres.append((n.lineno, r.name))
            elif isinstance(n, ast.Attribute) and not isinstance(n.ctx, ast.Store):
                # property reads on typed receivers
                for rt in self.a.resolver.expr_types(fn, n.value):
                    m = self.a.ct.lookup(rt, n.attr)
                    if m is not None and any(d.split('.')[-1] in ('property', 'cached_property') for d in m.decorators):
                        out.append((m.qualname, n.lineno, 'property'))
        # nested functions defined here are considered reachable (closures passed around)
        for sub in self.a.p.functions.values():
            if sub.parent is fn:
                out.append((sub.qualname, sub.node.lineno, 'nested'))
        self._edges[q] = out
        self.unresolved[q] = unres
        return out

    def reach(self, starts: list[str]) -> dict[str, tuple[str, int] | None]:
        """BFS closure; value = (predecessor, line) for path reconstruction."""
        pred: dict[str, tuple[str, int] | None] = {s: None for s in starts}
        dq = deque(starts)
        while dq:
            q = dq.popleft()
            fn = self.a.p.functions.get(q)
            if fn is None:
                continue
            for callee, line, _k in self.edges(fn):
                if callee not in pred:
                    pred[callee] = (q, line)
                    dq.append(callee)
        return pred

    def path(self, pred: dict, q: str) -> list[str]:
        out = []
        cur = q
        while cur is not None and pred.get(cur) is not None:
            p, line = pred[cur]
            fn = self.a.p.functions.get(p)
            out.append(f'{fn.module.relpath if fn else "?"}:{line} {p} -> {cur}')
            cur = p
        return list(reversed(out))

    # ------------------------------------------------------------------ callers
    def _build_callers(self) -> None:
        self._callers: dict[str, set[str]] = {}
        self._escaped: set[str] = set()
        by_name: dict[str, list[str]] = {}
        for q, f in self.a.p.functions.items():
            by_name.setdefault(f.name, []).append(q)
        for q, f in self.a.p.functions.items():
            for callee, _line, _k in self.edges(f):
                self._callers.setdefault(callee, set()).add(q)
            called = {id(n.func) for n in walk_no_defs(f.node) if isinstance(n, ast.Call)}
            for n in walk_no_defs(f.node):
                nm = n.attr if isinstance(n, ast.Attribute) else n.id if isinstance(n, ast.Name) else None
                if nm in by_name and id(n) not in called and isinstance(getattr(n, 'ctx', None), ast.Load):
                    # the function is used as a value (stored, passed, returned): it may be called from anywhere
                    if nm not in f.params and not self.a.resolver._is_local_var(f, nm):
                        self._escaped.update(by_name[nm])
        for m in self.a.p.modules.values():
            for n in m.tree.body:
                if isinstance(n, (ast.FunctionDef, ast.AsyncFunctionDef, ast.ClassDef)):
                    continue
                for x in ast.walk(n):
                    nm = x.attr if isinstance(x, ast.Attribute) else x.id if isinstance(x, ast.Name) else None
                    if nm in by_name:
                        self._escaped.update(by_name[nm])

    def callers(self, q: str) -> tuple[set[str], bool]:
        """(resolved callers of q, whether q is also used as a value / at module level: unknown callers)"""
        if not hasattr(self, '_callers'):
            self._build_callers()
        return self._callers.get(q, set()), q in self._escaped

    def only_reached_through(self, q: str, allowed, _seen=None) -> bool:
        """True when q is in `allowed`, or q is a private helper (leading underscore, not used as a value, at least
        one caller) all of whose callers are, recursively: whatever q does happens only on behalf of an allowed function."""
        if q in allowed:
            return True
        seen = _seen if _seen is not None else set()
        if q in seen:
            return True
        seen.add(q)
        f = self.a.p.functions.get(q)
        if f is None or not f.name.startswith('_') or f.name.startswith('__'):
            return False
        callers, escaped = self.callers(q)
        if escaped or not callers:
            return False
        return all(self.only_reached_through(c, allowed, seen) for c in callers)
