"""Whole-package call graph over resolved callees (static, over-approximate for typed receivers)."""
from __future__ import annotations

import ast
from collections import deque

from .context import Analysis
from .loader import FuncInfo, walk_no_defs


class CallGraph:
    def __init__(self, a: Analysis):
        self.a = a
        self._edges: dict[str, list[tuple[str, int, str]]] = {}
        self.unresolved: dict[str, list[tuple[int, str]]] = {}

    def edges(self, fn: FuncInfo) -> list[tuple[str, int, str]]:
        """[(callee qualname, call line, kind)]"""
        q = fn.qualname
        if q in self._edges:
            return self._edges[q]
        out: list[tuple[str, int, str]] = []
        unres: list[tuple[int, str]] = []
        for n in walk_no_defs(fn.node):
            if isinstance(n, ast.Call):
                r = self.a.resolver.resolve_call(fn, n)
                if r.kind in ('project', 'class'):
                    for t in r.targets:
                        out.append((t.qualname, n.lineno, r.kind))
                elif r.kind == 'unresolved':
                    unres.append((n.lineno, r.name))
            elif isinstance(n, ast.Attribute) and not isinstance(n.ctx, ast.Store):
                # property reads on typed receivers
                for rt in self.a.resolver.expr_types(fn, n.value):
                    m = self.a.ct.lookup(rt, n.attr)
                    if m is not None and any(d.split('.')[-1] in ('property', 'cached_property') for d in m.decorators):
                        out.append((m.qualname, n.lineno, 'property'))
        # nested functions defined here are considered reachable (closures passed around)
        for sub in self.a.p.functions.values():
            if sub.parent is fn:
                out.append((sub.qualname, sub.node.lineno, 'nested'))
        self._edges[q] = out
        self.unresolved[q] = unres
        return out

    def reach(self, starts: list[str]) -> dict[str, tuple[str, int] | None]:
        """BFS closure; value = (predecessor, line) for path reconstruction."""
        pred: dict[str, tuple[str, int] | None] = {s: None for s in starts}
        dq = deque(starts)
        while dq:
            q = dq.popleft()
            fn = self.a.p.functions.get(q)
            if fn is None:
                continue
            for callee, line, _k in self.edges(fn):
                if callee not in pred:
                    pred[callee] = (q, line)
                    dq.append(callee)
        return pred

    def path(self, pred: dict, q: str) -> list[str]:
        out = []
        cur = q
        while cur is not None and pred.get(cur) is not None:
            p, line = pred[cur]
            fn = self.a.p.functions.get(p)
            out.append(f'{fn.module.relpath if fn else "?"}:{line} {p} -> {cur}')
            cur = p
        return list(reversed(out))
