"""A neutral PEG expression IR with three front-ends and one canonicaliser.

 (i)   parse_ebnf(text)            - the TatSu grammar language as used by tatsu/_tatsu.ebnf (hand-written scanner/parser)
 (ii)  decompile_parser(module)    - generated-parser Python (ctx.token('x'), with ctx.choice() as a / @a.option, ...)
 (iii) read_model(expr)            - GRAMMAR_MODEL = Grammar(... Rule(... exp=...)) constructor expressions

IR nodes are tuples: ('tok', s) ('pat', regex) ('call', name) ('seq', (..)) ('choice', (..)) ('opt', e) ('clo', e)
('pclo', e) ('join', sep, e) ('pjoin', sep, e) ('gather', sep, e) ('pgather', sep, e) ('ljoin', sep, e) ('rjoin', sep, e)
('eclo',) ('group', e) ('skipgroup', e) ('la', e) ('nla', e) ('skipto', e) ('cut',) ('void',) ('eof',) ('eol',) ('dot',)
('fail',) ('named', n, e) ('namedlist', n, e) ('over', e) ('overlist', e) ('const', text) ('alert', level, text)
('meta', name) ('include', name)
"""
from __future__ import annotations

import ast
import re
import re._parser as _rp  # type: ignore
from dataclasses import dataclass, field

from .loader import AnalysisError


class FrontEndError(AnalysisError):
    pass


@dataclass
class RuleIR:
    name: str
    exp: tuple
    params: tuple = ()
    kwparams: tuple = ()
    decorators: tuple = ()
    base: str | None = None
    line: int = 0


@dataclass
class GrammarIR:
    rules: dict[str, RuleIR] = field(default_factory=dict)
    directives: dict = field(default_factory=dict)
    keywords: tuple = ()
    order: list[str] = field(default_factory=list)


# =============================================================================== (i) EBNF text
TOKEN_RE = re.compile(r'''
    (?P<ws>[ \t\r\n]+)
  | (?P<comment>\#[^\n]*|//[^\n]*|\(\*.*?\*\)|/\*.*?\*/)
  | (?P<tstr>\'\'\'(?:\\.|.)*?\'\'\'|"""(?:\\.|.)*?""")
  | (?P<rstr>r'(?:[^'\n\\]|\\.)*'|r"(?:[^"\n\\]|\\.)*")
  | (?P<str>'(?:[^'\n\\]|\\.)*'|"(?:[^"\n\\]|\\.)*")
  | (?P<qpat>\?'(?:[^'\n\\]|\\.)*'|\?"(?:[^"\n\\]|\\.)*")
  | (?P<dpat>\?/(?:[^/\\]|\\/|\\.)*?/\?)
  | (?P<const3>```(?:.|\n)*?```)
  | (?P<const>`[^`\n]*`)
  | (?P<eol>\$->)
  | (?P<skipto>->)
  | (?P<cutdep>>>)
  | (?P<sgroup>\(\?:)
  | (?P<void>\(\))
  | (?P<eclo>\{\})
  | (?P<gopen>\.\{)
  | (?P<jopen>%\{)
  | (?P<ljopen><\{)
  | (?P<rjopen>>\{)
  | (?P<meta>@(?:name|int|uint|float|bool)\b)
  | (?P<overlist>\+=|@\+:)
  | (?P<over>@:)
  | (?P<namelist>\+:)
  | (?P<word>[A-Za-z_][A-Za-z_0-9]*)
  | (?P<alert>\^+)
  | (?P<punct>::=|:=|::|[:=|()\[\]{}~&!$*+\-?<>,;.%])
''', re.X | re.S)


def grammar_lexicon(g: 'GrammarIR') -> dict:
    """The lexical regexes of the grammar language, read from the parsed grammar file itself (rules SINGLEQUOTED,
    DOUBLEQUOTED, multiline_string, REGEX): a faithful scanner uses the language's own definition of strings."""
    def pat_of(rule, idx=0):
        r = g.rules.get(rule)
        if r is None:
            raise FrontEndError(f'grammar file has no rule {rule}')
        pats = [n[1] for n in _walk_ir(r.exp) if n[0] == 'pat']
        if len(pats) <= idx:
            raise FrontEndError(f'rule {rule} has no pattern #{idx}')
        return re.compile(pats[idx])
    return {'sq': pat_of('SINGLEQUOTED'), 'dq': pat_of('DOUBLEQUOTED'), 'tsq': pat_of('multiline_string', 0),
            'tdq': pat_of('multiline_string', 1), 'regex': pat_of('REGEX')}


def _walk_ir(e):
    if isinstance(e, tuple):
        if e and isinstance(e[0], str):
            yield e
        for x in e:
            if isinstance(x, tuple):
                yield from _walk_ir(x)


_ESC_RE = re.compile(r"""(?x)(\\U[0-9a-fA-F]{8}|\\u[0-9a-fA-F]{4}|\\x[0-9a-fA-F]{2}|\\[0-7]{1,3}|\\N\{[^}]+}|\\[\\'"abfnrtv])""")


def _eval_escapes(s: str) -> str:
    import codecs
    return _ESC_RE.sub(lambda m: codecs.decode(m.group(0), 'unicode-escape'), s)


def _scan(text: str, lex: dict | None) -> list[tuple[str, str, int]]:
    """Tokens of a rule body.  With LEX (the grammar's own lexical regexes) strings and regexes are scanned exactly as the
    grammar language defines them; without, with equivalent built-in patterns (used for the well-formed shipped grammar)."""
    toks: list[tuple[str, str, int]] = []
    i = 0
    n = len(text)
    while i < n:
        if lex is not None and text[i] in '\'"':
            for key in ('tsq', 'tdq', 'sq', 'dq'):
                m = lex[key].match(text, i)
                if m:
                    raw = m.group(1)
                    if key in ('tsq', 'tdq'):
                        raw = raw.strip()
                    toks.append(('strval', _eval_escapes(raw), i))
                    i = m.end()
                    break
            else:
                raise FrontEndError(f'EBNF scanner: unterminated string at {text[i:i + 30]!r}')
            continue
        if lex is not None and text[i] == '?' and i + 1 < n and text[i + 1] in '\'"':
            for key in ('sq', 'dq'):
                m = lex[key].match(text, i + 1)
                if m:
                    toks.append(('pat', m.group(1), i))
                    i = m.end()
                    break
            else:
                raise FrontEndError(f'EBNF scanner: unterminated ?"..." pattern at {text[i:i + 30]!r}')
            continue
        if text[i] == '/':
            if text.startswith('/./', i):
                toks.append(('dot', '/./', i))
                i += 3
                continue
            rx = lex['regex'] if lex is not None else re.compile(r'/((?:[^/\\\n]|\\/|\\.)*)/', re.S)
            m = rx.match(text, i)
            if m and not text.startswith('//', i) and not text.startswith('/*', i):
                toks.append(('pat', m.group(1), i))
                i = m.end()
                continue
        m = TOKEN_RE.match(text, i)
        if not m:
            raise FrontEndError(f'EBNF scanner: cannot tokenize at {text[i:i + 30]!r}')
        kind = m.lastgroup
        if kind not in ('ws', 'comment'):
            toks.append((kind, m.group(), i))
        i = m.end()
    return toks


def _unquote(s: str) -> str:
    try:
        return ast.literal_eval(s)
    except Exception as e:  # noqa: BLE001
        raise FrontEndError(f'bad string literal {s!r}: {e}') from e


class _P:
    def __init__(self, toks, rule_names: set[str]):
        self.t = toks
        self.i = 0

    def peek(self, k=0):
        return self.t[self.i + k] if self.i + k < len(self.t) else ('end', '', -1)

    def next(self):
        tok = self.peek()
        self.i += 1
        return tok

    def at(self, kind, val=None, k=0):
        t = self.peek(k)
        return t[0] == kind and (val is None or t[1] == val)

    def expect(self, kind, val=None):
        t = self.next()
        if t[0] != kind or (val is not None and t[1] != val):
            raise FrontEndError(f'EBNF parser: expected {val or kind}, found {t}')
        return t

    # expre: choice | sequence
    def expre(self):
        opts = []
        if self.at('punct', '|'):
            self.next()
        opts.append(self.sequence())
        while self.at('punct', '|'):
            self.next()
            opts.append(self.sequence())
        if len(opts) == 1:
            return opts[0]
        return ('choice', tuple(opts))

    def sequence(self):
        items = []
        while not (self.at('end') or self.at('punct', '|') or self.at('punct', ')') or self.at('punct', ']') or self.at('punct', '}')
                   or self.at('punct', ';')):
            items.append(self.element())
            if self.at('punct', ','):  # ','.{element}+ form of sequences is not used by the shipped grammar
                raise FrontEndError('comma-separated sequences are not supported by this front-end')
        return ('seq', tuple(items))

    def element(self):
        # named / override / include
        if self.at('word') and self.peek(1)[0] in ('punct', 'namelist', 'overlist') and self.peek(1)[1] in ('=', ':', '+:', '+='):
            name = self.next()[1]
            op = self.next()[1]
            e = self.term()
            return ('namedlist' if op.startswith('+') else 'named', name, e)
        if self.at('overlist'):
            self.next()
            return ('overlist', self.term())
        if self.at('over') or self.at('punct', '='):
            self.next()
            return ('over', self.term())
        if self.at('punct', '>') and self.peek(1)[0] == 'word':
            self.next()
            return ('include', self.next()[1])
        return self.term()

    def term(self):
        t = self.peek()
        if t[0] == 'eclo':
            self.next()
            return ('eclo',)
        if t[0] == 'punct' and t[1] == '{':
            self.next()
            e = self.expre()
            self.expect('punct', '}')
            if self.at('punct', '+') or self.at('punct', '-'):
                self.next()
                return ('pclo', e)
            if self.at('punct', '*'):
                self.next()
            return ('clo', e)
        if t[0] == 'punct' and t[1] == '[':
            self.next()
            e = self.expre()
            self.expect('punct', ']')
            return ('opt', e)
        if t[0] == 'void':
            self.next()
            return ('void',)
        if t[0] == 'skipto':
            self.next()
            return ('skipto', self.term())
        if t[0] == 'punct' and t[1] == '&':
            self.next()
            return ('la', self.term())
        if t[0] == 'punct' and t[1] == '!':
            if self.peek(1)[0] == 'void':
                self.next()
                self.next()
                return ('fail',)
            self.next()
            return ('nla', self.term())
        if t[0] == 'punct' and t[1] == '~':
            self.next()
            return ('cut',)
        if t[0] == 'cutdep':
            self.next()
            return ('cut',)
        a = self.atom()
        # joins / gathers / postfix
        for kind, tag, ptag in (('gopen', 'gather', 'pgather'), ('jopen', 'join', 'pjoin'), ('ljopen', 'ljoin', 'ljoin'), ('rjopen', 'rjoin', 'rjoin')):
            if self.at(kind):
                self.next()
                e = self.expre()
                self.expect('punct', '}')
                if self.at('punct', '+') or self.at('punct', '-'):
                    self.next()
                    return (ptag, a, e)
                if self.at('punct', '*'):
                    self.next()
                return (tag, a, e)
        if self.at('punct', '+'):
            self.next()
            return ('pclo', a)
        if self.at('punct', '*'):
            self.next()
            return ('clo', a)
        if self.at('punct', '?'):
            self.next()
            return ('opt', a)
        return a

    def atom(self):
        kind, val, pos = self.next()
        if kind == 'meta':
            return ('meta', val[1:])
        if kind == 'strval':
            return ('tok', val)
        if kind == 'str':
            return ('tok', _unquote(val))
        if kind == 'tstr':
            return ('tok', _unquote(val))
        if kind == 'rstr':
            return ('tok', _unquote(val))
        if kind == 'word':
            return ('call', val)
        if kind == 'dot':
            return ('dot',)
        if kind == 'pat':
            return ('pat', val)
        if kind == 'qpat':
            return ('pat', val[2:-1])  # ?"..." patterns are taken verbatim (no string unescaping)
        if kind == 'dpat':
            return ('pat', val[2:-2])
        if kind == 'sgroup':
            e = self.expre()
            self.expect('punct', ')')
            return ('skipgroup', e)
        if kind == 'punct' and val == '(':
            e = self.expre()
            self.expect('punct', ')')
            return ('group', e)
        if kind == 'eol':
            return ('eol',)
        if kind == 'punct' and val == '$':
            return ('eof',)
        if kind == 'alert':
            k2, v2, _ = self.next()
            if k2 not in ('const', 'const3'):
                raise FrontEndError('alert without constant')
            return ('alert', len(val), _const_text(k2, v2))
        if kind in ('const', 'const3'):
            return ('const', _const_text(kind, val))
        raise FrontEndError(f'EBNF parser: unexpected token {kind} {val!r}')


def _const_text(kind, val):
    return val[3:-3] if kind == 'const3' else val[1:-1]


HEADER_RE = re.compile(r'^(?P<name>[A-Za-z_][A-Za-z_0-9]*)\s*(?:\[(?P<p1>[^\]]*)\]|\((?P<p2>[^)]*)\)|::(?P<p3>[\w:, ]+?))?\s*(?:<\s*(?P<base>\w+)\s*)?(?P<sep>::=|:=|:|=)', re.S)


# words the grammar's `literal` rule reads as constants, not as strings: `boolean`, `none` and - through `value`, its JSON-like
# alternative - `true`, `false`, `null` (C13.R3 checks on every run that _tatsu.ebnf still defines them so)
PARAM_CONSTANTS = {'True': True, 'False': False, 'None': None, 'true': True, 'false': False, 'null': None}


PATH_ONLY_FIRST = True


def _param_value(t: str):
    """value of a rule parameter as the grammar language reads it (`literal`): a quoted string is a str, True/False/None the
    constants, a number an int/float, a bare word or a::b path a str"""
    if re.fullmatch(r"r?(?:'(?:[^'\\\n]|\\.)*'|\"(?:[^\"\\\n]|\\.)*\")", t):
        try:
            return ast.literal_eval(t)
        except (SyntaxError, ValueError):
            return t
    if t in PARAM_CONSTANTS:
        return PARAM_CONSTANTS[t]
    if re.fullmatch(r'0[xX][0-9a-fA-F]+', t):
        return int(t, 16)
    if re.fullmatch(r'[-+]?\d+', t):
        return int(t)
    if re.fullmatch(r'[-+]?(?:\d+\.\d*|\d*\.\d+)(?:[Ee][-+]?\d+)?', t):
        return float(t)
    return t


def parse_ebnf(text: str) -> GrammarIR:
    g = GrammarIR()
    lines = text.splitlines()
    # split into chunks: a rule starts at a column-0 identifier (possibly preceded by @decorator lines)
    chunks: list[tuple[int, list[str]]] = []
    cur: list[str] | None = None
    start = 0
    kw: list[str] = []
    for ln, line in enumerate(lines, 1):
        if line.startswith('@@'):
            m = re.match(r'@@(\w+)\s*(?:::\s*(.*))?$', line.strip())
            if not m:
                raise FrontEndError(f'bad directive line {line!r}')
            name, value = m.group(1), (m.group(2) or '').strip()
            if name == 'keyword':
                kw.extend(_unquote(x) if x[:1] in '\'"' else x for x in value.split())
            else:
                g.directives[name] = _directive_value(value)
            continue
        if line[:1] == '#' or not line.strip():
            if not line.strip() and cur is not None:
                cur.append('')
            continue
        if line[:1] not in ' \t' and (line[:1].isalpha() or line[:1] in '_@'):
            if cur is not None and not (cur and cur[-1].strip().startswith('@') and ':' not in cur[-1]):
                chunks.append((start, cur))
                cur = None
            if cur is None:
                cur, start = [], ln
        if cur is None:
            raise FrontEndError(f'line {ln}: text outside of a rule: {line!r}')
        cur.append(line)
    if cur:
        chunks.append((start, cur))
    g.keywords = tuple(kw)
    names = set()
    parsed = []
    for ln, ch in chunks:
        body = '\n'.join(ch)
        decorators = []
        while True:
            m = re.match(r'\s*@(\w+)\s*\n', body)
            if not m:
                break
            decorators.append(m.group(1))
            body = body[m.end():]
        m = HEADER_RE.match(body.lstrip())
        if not m:
            raise FrontEndError(f'line {ln}: cannot read rule header from {body[:50]!r}')
        ptxt = m.group('p1') or m.group('p2') or m.group('p3') or ''
        positional = [p.strip() for p in ptxt.split(',') if p.strip() and '=' not in p]
        keyword = [(p.split('=', 1)[0].strip(), p.split('=', 1)[1].strip()) for p in ptxt.split(',') if '=' in p]
        # `params: +=first_param {',' +=literal}`, `first_param: path | literal`, `pair: word '=' literal`: a bare a::b path is read only as the FIRST
        # positional parameter (C13.R3 checks on every run that the grammar file still says so)
        for t_ in positional[1:] + [v for _, v in keyword]:
            if PATH_ONLY_FIRST and re.fullmatch(r'[_\w][_\w\d]*(?:::[_\w][_\w\d]*)+', t_):
                raise FrontEndError(f'rule header `{ptxt}`: the bare path `{t_}` is accepted only as the first positional parameter')
        params = tuple(_param_value(p) for p in positional)
        kwparams = tuple((k, _param_value(v)) for k, v in keyword)
        rest = body.lstrip()[m.end():]
        names.add(m.group('name'))
        parsed.append((m.group('name'), params, kwparams, tuple(decorators), m.group('base'), rest, ln))
    for name, params, kwparams, decorators, base, rest, ln in parsed:
        toks = _scan(rest, None)
        while toks and toks[-1][0] == 'punct' and toks[-1][1] == ';':
            toks.pop()
        p = _P(toks, names)
        try:
            exp = p.expre()
        except FrontEndError as e:
            raise FrontEndError(f'rule {name} (line {ln}): {e}') from e
        if not p.at('end'):
            raise FrontEndError(f'rule {name} (line {ln}): trailing tokens {p.t[p.i:p.i + 4]}')
        if name in g.rules:
            raise FrontEndError(f'rule {name} defined twice')
        g.rules[name] = RuleIR(name, exp, params, kwparams, decorators, base, ln)
        g.order.append(name)
    return g


def _directive_value(v: str):
    if v[:2] in ('?"', "?'"):
        return v[2:-1]
    if v[:1] == '/' and v[-1:] == '/':
        return v[1:-1]
    if v in ('True', 'False', 'None'):
        return {'True': True, 'False': False, 'None': None}[v]
    if v[:1] in '\'"':
        return _unquote(v)
    return v if v else True


# =============================================================================== (ii) generated parser
WRAPS = {'optional': 'opt', 'group': 'group', 'skipgroup': 'skipgroup', 'if_': 'la', 'ifnot_': 'nla'}
LOOPS = {'loopopt': 'clo', 'loopplus': 'pclo', 'skipto': 'skipto'}
SEPLOOPS = {'joinopt': 'join', 'joinplus': 'pjoin', 'joinleft': 'ljoin', 'joinright': 'rjoin', 'gatheropt': 'gather', 'gatherplus': 'pgather'}
SIMPLE = {'cut': ('cut',), 'void': ('void',), 'eofcheck': ('eof',), 'eolcheck': ('eol',), 'dot': ('dot',), 'fail': ('fail',), 'empty': ('eclo',)}


def _body_ir(stmts: list[ast.stmt]) -> tuple:
    items = []
    i = 0
    while i < len(stmts):
        s = stmts[i]
        i += 1
        if isinstance(s, ast.Expr) and isinstance(s.value, ast.Constant):
            continue
        if isinstance(s, ast.Expr) and isinstance(s.value, ast.Call):
            c = s.value
            f = c.func
            if isinstance(f, ast.Attribute) and isinstance(f.value, ast.Name) and f.value.id == 'self':
                items.append(('call', f.attr))
                continue
            if isinstance(f, ast.Attribute) and isinstance(f.value, ast.Name) and f.value.id == 'ctx':
                m = f.attr
                if m == 'define':
                    continue
                if m in SIMPLE:
                    items.append(SIMPLE[m])
                elif m == 'token':
                    items.append(('tok', ast.literal_eval(c.args[0])))
                elif m == 'pattern':
                    items.append(('pat', ast.literal_eval(c.args[0])))
                elif m == 'constant':
                    items.append(('const', ast.literal_eval(c.args[0])))
                elif m == 'alert':
                    items.append(('alert', ast.literal_eval(c.args[1]), ast.literal_eval(c.args[0])))
                elif m.startswith('match'):
                    items.append(('meta', m[len('match'):]))
                else:
                    raise FrontEndError(f'generated parser: unknown primitive ctx.{m} (line {s.lineno})')
                continue
            if isinstance(f, ast.Attribute) and f.attr == 'expecting':
                continue
            raise FrontEndError(f'generated parser: unknown statement {ast.unparse(s)[:60]} (line {s.lineno})')
        if isinstance(s, ast.With) and len(s.items) == 1 and isinstance(s.items[0].context_expr, ast.Call):
            c = s.items[0].context_expr
            f = c.func
            if not (isinstance(f, ast.Attribute) and isinstance(f.value, ast.Name) and f.value.id == 'ctx'):
                raise FrontEndError(f'generated parser: unknown with-statement (line {s.lineno})')
            m = f.attr
            if m in WRAPS:
                items.append((WRAPS[m], _body_ir(s.body)))
            elif m in ('nameset', 'nameadd'):
                items.append(('named' if m == 'nameset' else 'namedlist', ast.literal_eval(c.args[0]), _body_ir(s.body)))
            elif m in ('result', 'resultadd'):
                items.append(('over' if m == 'result' else 'overlist', _body_ir(s.body)))
            elif m == 'choice':
                opts = []
                for b in s.body:
                    if isinstance(b, ast.FunctionDef):
                        opts.append(_body_ir(b.body))
                    elif isinstance(b, ast.Expr):
                        continue
                    else:
                        raise FrontEndError(f'generated parser: unexpected statement in choice (line {b.lineno})')
                items.append(('choice', tuple(opts)))
            elif m in LOOPS or m in SEPLOOPS:
                parts = {}
                for b in s.body:
                    if isinstance(b, ast.FunctionDef) and b.decorator_list:
                        d = b.decorator_list[0]
                        role = d.attr if isinstance(d, ast.Attribute) else '?'
                        parts[role] = _body_ir(b.body)
                    elif isinstance(b, ast.Expr) and isinstance(b.value, ast.Constant):
                        continue
                    else:
                        raise FrontEndError(f'generated parser: loop body statement outside @x.exp/@x.sep (line {b.lineno}): '
                                            f'{ast.unparse(b)[:40]}')
                if 'exp' not in parts:
                    raise FrontEndError(f'generated parser: loop without @x.exp (line {s.lineno})')
                if m in LOOPS:
                    items.append((LOOPS[m], parts['exp']))
                else:
                    if 'sep' not in parts:
                        raise FrontEndError(f'generated parser: join without @x.sep (line {s.lineno})')
                    items.append((SEPLOOPS[m], parts['sep'], parts['exp']))
            else:
                raise FrontEndError(f'generated parser: unknown context manager ctx.{m} (line {s.lineno})')
            continue
        if isinstance(s, ast.Pass):
            continue
        raise FrontEndError(f'generated parser: unsupported statement {type(s).__name__} (line {s.lineno})')
    return ('seq', tuple(items))


def decompile_parser(tree: ast.Module, rules_class_suffix: str = 'Rules') -> GrammarIR:
    g = GrammarIR()
    cls = next((n for n in tree.body if isinstance(n, ast.ClassDef) and n.name.endswith(rules_class_suffix)), None)
    if cls is None:
        raise FrontEndError('generated parser: no *Rules class')
    for n in tree.body:
        if isinstance(n, ast.Assign) and isinstance(n.targets[0], ast.Name) and n.targets[0].id == 'KEYWORDS':
            g.keywords = tuple(ast.literal_eval(n.value))
    for m in cls.body:
        if not isinstance(m, ast.FunctionDef):
            continue
        if m.name == '__init__':
            for c in ast.walk(m):
                if isinstance(c, ast.Call) and ast.unparse(c.func) == 'ParserConfig.new':
                    for k in c.keywords:
                        if k.arg and k.arg not in ('config', 'keywords'):
                            try:
                                g.directives[k.arg] = ast.literal_eval(k.value)
                            except Exception:  # noqa: BLE001
                                pass
            continue
        decos = []
        params: tuple = ()
        kwparams: tuple = ()
        is_rule = False
        for d in m.decorator_list:
            text = ast.unparse(d)
            if text.startswith('tatsu.rule'):
                is_rule = True
                if isinstance(d, ast.Call):
                    params = tuple(ast.literal_eval(x) for x in d.args)
                    kwparams = tuple((k.arg, ast.literal_eval(k.value)) for k in d.keywords)
            elif text.startswith('tatsu.'):
                decos.append(text.split('.', 1)[1])
        if not is_rule:
            continue
        name = m.name
        g.rules[name] = RuleIR(name, _body_ir(m.body), params, kwparams, tuple(decos), None, m.lineno)
        g.order.append(name)
    return g


# =============================================================================== (iii) model constructor expression
MODEL_KINDS = {
    'Token': 'tok', 'Pattern': 'pat', 'Call': 'call', 'Constant': 'const', 'Cut': 'cut', 'Void': 'void', 'EOF': 'eof', 'EOL': 'eol',
    'Dot': 'dot', 'Fail': 'fail', 'EmptyClosure': 'eclo', 'RuleInclude': 'include',
    'Group': 'group', 'SkipGroup': 'skipgroup', 'Optional': 'opt', 'Closure': 'clo', 'PositiveClosure': 'pclo', 'Lookahead': 'la',
    'NegativeLookahead': 'nla', 'SkipTo': 'skipto', 'Override': 'over', 'OverrideList': 'overlist', 'Option': 'option',
    'Join': 'join', 'PositiveJoin': 'pjoin', 'Gather': 'gather', 'PositiveGather': 'pgather', 'LeftJoin': 'ljoin', 'RightJoin': 'rjoin',
}
META_KINDS = {'NameMeta': 'name', 'IntMeta': 'int', 'UIntMeta': 'uint', 'FloatMeta': 'float', 'BoolMeta': 'bool'}


def _model_ir(e: ast.expr) -> tuple:
    if not isinstance(e, ast.Call):
        raise FrontEndError(f'model reader: expected a constructor call, found {ast.unparse(e)[:40]}')
    cls = ast.unparse(e.func).split('.')[-1]
    kw = {k.arg: k.value for k in e.keywords}
    pos = list(e.args)

    def child(name='exp'):
        v = kw.get(name) if name in kw else (pos[0] if pos else None)
        if v is None:
            raise FrontEndError(f'model reader: {cls} without {name}')
        return _model_ir(v)

    if cls in META_KINDS:
        return ('meta', META_KINDS[cls])
    if cls == 'Sequence':
        v = kw.get('sequence') or (pos[0] if pos else None)
        return ('seq', tuple(_model_ir(x) for x in v.elts))
    if cls == 'Choice':
        v = kw.get('options') or (pos[0] if pos else None)
        return ('choice', tuple(_model_ir(x) for x in v.elts))
    if cls in ('Named', 'NamedList'):
        return ('named' if cls == 'Named' else 'namedlist', ast.literal_eval(kw['name']), child('exp'))
    if cls == 'Alert':
        return ('alert', ast.literal_eval(kw['level']), ast.literal_eval(kw.get('literal', pos[0] if pos else None)))
    kind = MODEL_KINDS.get(cls)
    if kind is None:
        raise FrontEndError(f'model reader: unknown node class {cls}')
    if kind in ('tok', 'pat', 'const'):
        v = kw.get({'tok': 'token', 'pat': 'pattern', 'const': 'literal'}[kind]) or (pos[0] if pos else None)
        return (kind, ast.literal_eval(v) if v is not None else None)
    if kind == 'call':
        v = kw.get('name') or (pos[0] if pos else None)
        return ('call', ast.literal_eval(v))
    if kind == 'include':
        v = kw.get('name') or (pos[0] if pos else None)
        return ('include', ast.literal_eval(v))
    if kind in ('cut', 'void', 'eof', 'eol', 'dot', 'fail', 'eclo'):
        return (kind,)
    if kind in ('join', 'pjoin', 'gather', 'pgather', 'ljoin', 'rjoin'):
        return (kind, _model_ir(kw['sep']), child('exp'))
    if kind == 'option':
        return child('exp')
    return (kind, child('exp'))


def read_model(expr: ast.expr) -> GrammarIR:
    g = GrammarIR()
    if not (isinstance(expr, ast.Call) and ast.unparse(expr.func).split('.')[-1] == 'Grammar'):
        raise FrontEndError('model reader: GRAMMAR_MODEL is not a Grammar(...) expression')
    kw = {k.arg: k.value for k in expr.keywords}
    if 'directives' in kw:
        g.directives = ast.literal_eval(kw['directives'])
    if 'keywords' in kw:
        g.keywords = tuple(ast.literal_eval(kw['keywords']))
    rules = kw.get('rules')
    if rules is None:
        raise FrontEndError('model reader: Grammar without rules')
    for r in rules.elts:
        rk = {k.arg: k.value for k in r.keywords}
        name = ast.literal_eval(rk['name'])
        decos = []
        for flag, d in (('is_name', 'name'), ('is_lrec', 'leftrec'), ('is_tokn', 'token')):
            if flag in rk and ast.literal_eval(rk[flag]):
                decos.append(d)
        params = tuple(ast.literal_eval(rk['params'])) if 'params' in rk else ()
        kwp = tuple(sorted(ast.literal_eval(rk['kwparams']).items())) if 'kwparams' in rk else ()
        g.rules[name] = RuleIR(name, _model_ir(rk['exp']), params, kwp, tuple(decos), None, r.lineno)
        g.order.append(name)
    return g


# =============================================================================== canonical form
def _regex_tree(p: str):
    try:
        return repr(list(_rp.parse(p)))
    except Exception:  # noqa: BLE001
        return p


def canon(e: tuple, rules: dict[str, RuleIR] | None = None, depth: int = 0) -> tuple:
    """Semantics-preserving normal form subsuming Model.optimized(): groups dropped, sequences flattened, one-element
    sequences/choices unwrapped, [{x}] -> {x}, includes expanded, patterns as regex parse trees, Constant None/'' identified."""
    k = e[0]
    if k == 'group':
        return canon(e[1], rules, depth)
    if k == 'seq':
        items = []
        for x in e[1]:
            c = canon(x, rules, depth)
            if c[0] == 'seq':
                items.extend(c[1])
            else:
                items.append(c)
        if len(items) == 1:
            return items[0]
        return ('seq', tuple(items))
    if k == 'choice':
        opts = []
        for x in e[1]:
            c = canon(x, rules, depth)
            opts.append(c)
        if len(opts) == 1:
            return opts[0]
        return ('choice', tuple(opts))
    if k == 'opt':
        c = canon(e[1], rules, depth)
        if c[0] in ('opt', 'clo', 'join', 'gather'):
            return c
        return ('opt', c)
    if k == 'include':
        if rules and e[1] in rules and depth < 8:
            return canon(rules[e[1]].exp, rules, depth + 1)
        return e
    if k == 'pat':
        return ('pat', _regex_tree(e[1] or ''))
    if k == 'const':
        return ('const', _const_norm(e[1]))
    if k == 'alert':
        return ('alert', e[1], _const_norm(e[2]))
    if k in ('clo', 'pclo', 'la', 'nla', 'skipto', 'skipgroup', 'over', 'overlist'):
        return (k, canon(e[1], rules, depth))
    if k in ('named', 'namedlist'):
        return (k, e[1], canon(e[2], rules, depth))
    if k in ('join', 'pjoin', 'gather', 'pgather', 'ljoin', 'rjoin'):
        return (k, canon(e[1], rules, depth), canon(e[2], rules, depth))
    if k == 'meta':
        return ('meta', e[1].lower())
    return e


def _const_norm(v):
    """Constants are compared by value: `None`, None and '' are the same "no value"; `True` (text) is True; other text as is."""
    if v in (None, ''):
        return ''
    if isinstance(v, str):
        try:
            lit = ast.literal_eval(v.strip())
        except Exception:  # noqa: BLE001
            return v
        if isinstance(lit, str):
            return _const_norm(lit) if lit != v else lit  # `'x'` (a quoted string in backquotes) is the constant text x
        return '' if lit is None else f'<literal {lit!r}>'
    return f'<literal {v!r}>'


def first_difference(a: tuple, b: tuple, path: str = '') -> str | None:
    if a == b:
        return None
    if not (isinstance(a, tuple) and isinstance(b, tuple)) or not a or not b or a[0] != b[0] or len(a) != len(b):
        return f'{path or "<root>"}: {_show(a)}  vs  {_show(b)}'
    for i, (x, y) in enumerate(zip(a, b)):
        if x == y:
            continue
        if isinstance(x, tuple) and isinstance(y, tuple) and x and y and isinstance(x[0], tuple) and isinstance(y[0], tuple):
            if len(x) != len(y):
                return f'{path}/{a[0]}: {len(x)} vs {len(y)} elements: {_show(x)}  vs  {_show(y)}'
            for j, (p, q) in enumerate(zip(x, y)):
                d = first_difference(p, q, f'{path}/{a[0]}[{j}]')
                if d:
                    return d
        elif isinstance(x, tuple) and isinstance(y, tuple):
            d = first_difference(x, y, f'{path}/{a[0]}')
            if d:
                return d
        else:
            return f'{path}/{a[0]}: {x!r}  vs  {y!r}'
    return f'{path}: {_show(a)} vs {_show(b)}'


def _show(e) -> str:
    s = repr(e)
    return s if len(s) < 160 else s[:157] + '...'
