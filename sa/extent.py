"""The *extent* of a function: the function itself plus the private helpers that exist only for it.

A helper belongs to the extent of F when it is a plain project function or method with a private name (one leading
underscore), is not a generator / context manager / property / cached function, and every syntactic use of its name in the
package is a call made from a function already in the extent (so it is code a maintainer moved out of F, reachable from
nowhere else).  Rules anchored at F look at the extent, and the path executor inlines calls to extent helpers, so that
`extract method` does not change a verdict.
"""
from __future__ import annotations

import ast

from .loader import FuncInfo, Project, walk_no_defs

_SKIP_DECORATORS = {'contextmanager', 'property', 'cached_property', 'cache', 'lru_cache', 'staticmethod_', 'classmethod',
                    'asynccontextmanager', 'overload', 'abstractmethod', 'deprecated'}


class Extents:
    def __init__(self, project: Project):
        self.p = project
        self._uses: dict[str, set[str]] | None = None   # name -> qualnames of functions that CALL it
        self._escapes: set[str] = set()                  # names used as a value / at module or class level
        self._cache: dict[str, list[FuncInfo]] = {}
        self._by_name: dict[str, list[FuncInfo]] = {}

    def _index(self) -> None:
        self._uses = {}
        for f in self.p.functions.values():
            if f.name.startswith('_') and not f.name.startswith('__'):
                self._by_name.setdefault(f.name, []).append(f)
        names = set(self._by_name)
        for f in self.p.functions.values():
            called = set()
            for n in walk_no_defs(f.node):
                if isinstance(n, ast.Call):
                    nm = n.func.attr if isinstance(n.func, ast.Attribute) else n.func.id if isinstance(n.func, ast.Name) else None
                    if nm in names:
                        self._uses.setdefault(nm, set()).add(f.qualname)
                        called.add(id(n.func))
            for n in walk_no_defs(f.node):
                nm = n.attr if isinstance(n, ast.Attribute) else n.id if isinstance(n, ast.Name) else None
                if nm in names and id(n) not in called and isinstance(getattr(n, 'ctx', None), ast.Load) and nm not in f.params:
                    self._escapes.add(nm)
        for m in self.p.modules.values():
            for top in ast.walk(m.tree):
                if isinstance(top, (ast.ClassDef, ast.Module)):
                    for s in top.body:
                        if isinstance(s, (ast.FunctionDef, ast.AsyncFunctionDef, ast.ClassDef)):
                            continue
                        for x in ast.walk(s):
                            nm = x.attr if isinstance(x, ast.Attribute) else x.id if isinstance(x, ast.Name) else None
                            if nm in names and isinstance(getattr(x, 'ctx', None), ast.Load):
                                self._escapes.add(nm)

    @staticmethod
    def _is_plain(f: FuncInfo) -> bool:
        if any(d.split('.')[-1].split('(')[0] in _SKIP_DECORATORS for d in f.decorators):
            return False
        if isinstance(f.node, ast.AsyncFunctionDef):
            return False
        for n in walk_no_defs(f.node):
            if isinstance(n, (ast.Yield, ast.YieldFrom)):
                return False
        return True

    def of(self, fn: FuncInfo) -> list[FuncInfo]:
        """[fn, helper, ...] in discovery order."""
        if fn.qualname in self._cache:
            return self._cache[fn.qualname]
        if self._uses is None:
            self._index()
        ext = [fn]
        inq = {fn.qualname}
        changed = True
        while changed:
            changed = False
            for f in list(ext):
                for n in walk_no_defs(f.node):
                    if not isinstance(n, ast.Call):
                        continue
                    nm = n.func.attr if isinstance(n.func, ast.Attribute) else n.func.id if isinstance(n.func, ast.Name) else None
                    cands = self._by_name.get(nm or '', [])
                    if len(cands) != 1 or nm in self._escapes:
                        continue
                    h = cands[0]
                    if h.qualname in inq or not self._is_plain(h):
                        continue
                    same_scope = (h.cls is not None and f.cls is not None and h.cls.qualname == f.cls.qualname) or \
                                 (h.cls is None and h.parent is None and h.module is f.module) or \
                                 (h.cls is not None and f.cls is not None and h.module is f.module)
                    if isinstance(n.func, ast.Attribute) and not (isinstance(n.func.value, ast.Name) and n.func.value.id in ('self', 'cls', 'ctx')):
                        same_scope = False
                    if not same_scope:
                        continue
                    if not self._uses.get(nm, set()) <= inq:
                        continue
                    ext.append(h)
                    inq.add(h.qualname)
                    changed = True
        self._cache[fn.qualname] = ext
        return ext

    def helper_for_call(self, root: FuncInfo, f: FuncInfo, call: ast.Call) -> FuncInfo | None:
        nm = call.func.attr if isinstance(call.func, ast.Attribute) else call.func.id if isinstance(call.func, ast.Name) else None
        for h in self.of(root)[1:]:
            if h.name == nm and h is not f:
                return h
        return None

    def shared_helper_for_call(self, f: FuncInfo, call: ast.Call) -> FuncInfo | None:
        """a plain private function / method of the same module (class) that is only ever CALLED (never used as a value), whoever
        calls it: executing its body in place is what the interpreter does"""
        if self._uses is None:
            self._index()
        nm = call.func.attr if isinstance(call.func, ast.Attribute) else call.func.id if isinstance(call.func, ast.Name) else None
        cands = self._by_name.get(nm or '', [])
        if len(cands) != 1 or nm in self._escapes:
            return None
        h = cands[0]
        if h is f or not self._is_plain(h) or h.parent is not None:
            return None
        if isinstance(call.func, ast.Attribute):
            if not (isinstance(call.func.value, ast.Name) and call.func.value.id in ('self', 'cls', 'ctx')):
                return None
            if h.cls is None or f.cls is None or h.module is not f.module:
                return None
        elif h.cls is not None or h.module is not f.module:
            return None
        return h

    def walk(self, fn: FuncInfo):
        """(function of the extent, node) for every node, nested definitions excluded."""
        for f in self.of(fn):
            for n in walk_no_defs(f.node):
                yield f, n

    def param_origin(self, root: FuncInfo, helper: FuncInfo, param: str) -> str | None:
        """the parameter of ROOT that HELPER's parameter PARAM receives at its (only) call sites, when every call passes a
        plain name that is itself a parameter (of the root or, recursively, mapped)"""
        if helper is root:
            return param if param in root.params else None
        origins = set()
        for f in self.of(root):
            for n in walk_no_defs(f.node):
                if isinstance(n, ast.Call):
                    nm = n.func.attr if isinstance(n.func, ast.Attribute) else n.func.id if isinstance(n.func, ast.Name) else None
                    if nm != helper.name:
                        continue
                    params = list(helper.params)
                    if helper.cls is not None and params and params[0] in ('self', 'cls') and isinstance(n.func, ast.Attribute):
                        params = params[1:]
                    arg = None
                    if param in params and params.index(param) < len(n.args):
                        arg = n.args[params.index(param)]
                    for k in n.keywords:
                        if k.arg == param:
                            arg = k.value
                    if isinstance(arg, ast.Name):
                        origins.add(self.param_origin(root, f, arg.id))
                    else:
                        origins.add(None)
        return origins.pop() if len(origins) == 1 else None
