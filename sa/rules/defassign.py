"""Definite assignment: reads of a function-local name on a path on which no binding of it has run.

Flow rules: both branches of `if`; a `for`/`while` body may run zero times (its bindings are not definite after the loop,
unless the loop is `while True`); a `try` body may stop anywhere (handlers and `finally` see only what was bound before the
try); `with` bodies run; `match` arms are alternatives; comprehension targets are their own scope.  Names declared
global/nonlocal, parameters, and names never bound in the function (globals, builtins) are not checked."""
from __future__ import annotations

import ast

from ..loader import FuncInfo


def possibly_unbound(fn: FuncInfo) -> list[tuple[ast.Name, str]]:
    node = fn.node
    params = {a.arg for a in ast.walk(node.args) if isinstance(a, ast.arg)}
    declared: set[str] = set()
    bound_somewhere: set[str] = set()

    def own(n):
        stack = list(ast.iter_child_nodes(n))
        while stack:
            x = stack.pop()
            yield x
            if isinstance(x, (ast.FunctionDef, ast.AsyncFunctionDef, ast.ClassDef, ast.Lambda)):
                if isinstance(x, (ast.FunctionDef, ast.AsyncFunctionDef, ast.ClassDef)):
                    bound_somewhere.add(x.name)
                continue
            stack.extend(ast.iter_child_nodes(x))
    for x in own(node):
        if isinstance(x, (ast.Global, ast.Nonlocal)):
            declared.update(x.names)
        elif isinstance(x, ast.Name) and isinstance(x.ctx, (ast.Store, ast.Del)):
            bound_somewhere.add(x.id)
        elif isinstance(x, ast.ExceptHandler) and x.name:
            bound_somewhere.add(x.name)
        elif isinstance(x, ast.alias):
            bound_somewhere.add((x.asname or x.name).split('.')[0])
        elif isinstance(x, (ast.MatchAs, ast.MatchStar)) and x.name:
            bound_somewhere.add(x.name)
        elif isinstance(x, ast.MatchMapping) and x.rest:
            bound_somewhere.add(x.rest)
    locals_ = bound_somewhere - params - declared
    findings: list[tuple[ast.Name, str]] = []

    def binds(target, defs: set[str]) -> None:
        for x in ast.walk(target):
            if isinstance(x, ast.Name) and isinstance(x.ctx, ast.Store):
                defs.add(x.id)

    def expr(e, defs: set[str]) -> None:
        """reads in evaluation order; walrus binds; comprehensions bind their own targets locally"""
        if e is None:
            return
        if isinstance(e, ast.Name):
            if isinstance(e.ctx, ast.Load) and e.id in locals_ and e.id not in defs:
                findings.append((e, e.id))
            return
        if isinstance(e, ast.NamedExpr):
            expr(e.value, defs)
            defs.add(e.target.id)
            return
        if isinstance(e, (ast.Lambda, ast.FunctionDef, ast.AsyncFunctionDef, ast.ClassDef)):
            return
        if isinstance(e, (ast.ListComp, ast.SetComp, ast.GeneratorExp, ast.DictComp)):
            inner = set(defs)
            for g in e.generators:
                expr(g.iter, inner)
                binds(g.target, inner)
                for c in g.ifs:
                    expr(c, inner)
            if isinstance(e, ast.DictComp):
                expr(e.key, inner)
                expr(e.value, inner)
            else:
                expr(e.elt, inner)
            return
        if isinstance(e, ast.BoolOp):
            expr(e.values[0], defs)
            for v in e.values[1:]:
                expr(v, set(defs))  # may not be evaluated: its walrus bindings are not definite
            return
        if isinstance(e, ast.IfExp):
            expr(e.test, defs)
            expr(e.body, set(defs))
            expr(e.orelse, set(defs))
            return
        for c in ast.iter_child_nodes(e):
            if isinstance(c, ast.expr):
                expr(c, defs)
            elif isinstance(c, (ast.keyword,)):
                expr(c.value, defs)
            elif isinstance(c, ast.comprehension):
                pass
            elif isinstance(c, (ast.Slice,)):
                expr(c, defs)

    def exits(block) -> bool:
        if not block:
            return False
        last = block[-1]
        if isinstance(last, (ast.Return, ast.Raise, ast.Continue, ast.Break)):
            return True
        if isinstance(last, ast.If):
            return exits(last.body) and exits(last.orelse)
        return False

    def block(stmts, defs: set[str]) -> set[str]:
        for s in stmts:
            defs = stmt(s, defs)
        return defs

    def stmt(s, defs: set[str]) -> set[str]:
        if isinstance(s, (ast.FunctionDef, ast.AsyncFunctionDef, ast.ClassDef)):
            return defs | {s.name}
        if isinstance(s, ast.Assign):
            expr(s.value, defs)
            for t in s.targets:
                for x in ast.walk(t):
                    if isinstance(x, ast.Name) and isinstance(x.ctx, ast.Load):
                        expr(x, defs)
                binds(t, defs)
            return defs
        if isinstance(s, ast.AnnAssign):
            if s.value is not None:
                expr(s.value, defs)
                binds(s.target, defs)
            return defs
        if isinstance(s, ast.AugAssign):
            if isinstance(s.target, ast.Name) and s.target.id in locals_ and s.target.id not in defs:
                findings.append((s.target, s.target.id))
            expr(s.value, defs)
            binds(s.target, defs)
            return defs
        if isinstance(s, (ast.Expr, ast.Return)):
            expr(s.value, defs)
            return defs
        if isinstance(s, ast.Raise):
            expr(s.exc, defs)
            expr(s.cause, defs)
            return defs
        if isinstance(s, ast.Delete):
            for t in s.targets:
                if isinstance(t, ast.Name):
                    defs.discard(t.id)
            return defs
        if isinstance(s, ast.If):
            expr(s.test, defs)
            a_ = block(s.body, set(defs))
            b_ = block(s.orelse, set(defs))
            if exits(s.body):
                return b_
            if exits(s.orelse):
                return a_
            return a_ & b_
        if isinstance(s, (ast.For, ast.AsyncFor)):
            expr(s.iter, defs)
            inner = set(defs)
            binds(s.target, inner)
            block(s.body, inner)
            return block(s.orelse, set(defs)) if s.orelse else defs
        if isinstance(s, ast.While):
            expr(s.test, defs)
            inner = block(s.body, set(defs))
            if isinstance(s.test, ast.Constant) and s.test.value:
                return inner | defs  # left only by break/return: approximated by the body having run
            return block(s.orelse, set(defs)) if s.orelse else defs
        if isinstance(s, (ast.With, ast.AsyncWith)):
            for it in s.items:
                expr(it.context_expr, defs)
                if it.optional_vars is not None:
                    binds(it.optional_vars, defs)
            return block(s.body, defs)
        if isinstance(s, ast.Try):
            before = set(defs)
            after_body = block(s.body, set(defs))
            after_else = block(s.orelse, set(after_body))
            outs = [] if exits(s.body) and not s.orelse else [after_else]
            for h in s.handlers:
                hd = set(before)
                if h.name:
                    hd.add(h.name)
                ho = block(h.body, hd)
                if not exits(h.body):
                    outs.append(ho - ({h.name} if h.name else set()))
            res = set.intersection(*outs) if outs else set(before)
            if s.finalbody:
                block(s.finalbody, set(before))
                res = block(s.finalbody, res) if False else res | (block(s.finalbody, set(before)) - before)
            return res
        if isinstance(s, ast.Match):
            expr(s.subject, defs)
            outs = []
            for c in s.cases:
                cd = set(defs)
                for x in ast.walk(c.pattern):
                    if isinstance(x, (ast.MatchAs, ast.MatchStar)) and x.name:
                        cd.add(x.name)
                    if isinstance(x, ast.MatchMapping) and x.rest:
                        cd.add(x.rest)
                expr(c.guard, cd)
                o = block(c.body, cd)
                if not exits(c.body):
                    outs.append(o)
            last = s.cases[-1] if s.cases else None
            irrefutable = last is not None and last.guard is None and isinstance(last.pattern, ast.MatchAs) and last.pattern.pattern is None
            if not irrefutable:
                outs.append(set(defs))  # no arm matched
            if not outs:
                return defs
            return set.intersection(*outs)
        if isinstance(s, ast.Assert):
            expr(s.test, defs)
            expr(s.msg, set(defs))
            return defs
        if isinstance(s, (ast.Import, ast.ImportFrom)):
            for al in s.names:
                defs.add((al.asname or al.name).split('.')[0])
            return defs
        return defs

    block(node.body, set())
    return findings
