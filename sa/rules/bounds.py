"""Index-in-bounds rule for the character scanners: every `text[i]` (non-slice, non-constant index)
is dominated by a fact `i < len(text)` established by a comparison, a range() bound, str.find()
or a reviewed alias; facts die when a variable they mention is re-assigned.

Flow-sensitive over the structured AST (if / while / for / boolean short-circuit / early exits).
"""
from __future__ import annotations

import ast
import re

from ..loader import FuncInfo, norm

TEXT_NAMES = {'s', 'text', 'textstr', 'self.textstr', 'self.text', 'c.textstr'}
# reviewed aliases:  <expr>  ==  len(<text>)
LEN_ALIASES = {'self.len': ['self.textstr', 'self.text'], 'le': ['self.text']}


class Facts:
    """lt[(E, X)]: E < len(X);  le[(E, X)]: E <= len(X)   (E, X normalised source text)"""

    def __init__(self, lt=None, le=None):
        self.lt: set[tuple[str, str]] = set(lt or ())
        self.le: set[tuple[str, str]] = set(le or ())

    def copy(self):
        return Facts(self.lt, self.le)

    def kill(self, var: str):
        pat = re.compile(rf'(?<![\w.]){re.escape(var)}(?![\w])')
        self.lt = {f for f in self.lt if not pat.search(f[0])}
        self.le = {f for f in self.le if not pat.search(f[0])}

    def meet(self, other: 'Facts') -> 'Facts':
        return Facts(self.lt & other.lt, (self.le | self.lt) & (other.le | other.lt))

    def join_in(self, other: 'Facts'):
        self.lt |= other.lt
        self.le |= other.le


class BoundsChecker:
    def __init__(self, fn: FuncInfo, module_len_consts: dict[str, str], preconds: dict | None = None):
        self.fn = fn
        self.preconds = preconds or {}  # callee name -> [(text_arg_index, index_arg_index)]
        self.return_bounds: dict[str, int] = {}  # callee name -> index of the text parameter its result is < len() of (or -1)
        self.returns_seen: list[set[str]] = []  # per return: texts X with value < len(X) (None for negative constants)
        self.param_violations: list[tuple[int, int, ast.Subscript, str]] = []
        self.len_consts = module_len_consts  # NAME -> X where NAME = len(X) at module level
        self.violations: list[tuple[ast.Subscript, str]] = []
        self.checked: list[str] = []
        self.range_hi: dict[str, ast.expr] = {}  # loop variable -> exclusive upper bound of its range()
        self.param_kinds: dict[tuple[int, int], str] = {}  # (text param, bound param) -> 'lt' | 'le'

    # ---------------------------------------------------------------- helpers
    def texts_of_len(self, e: ast.expr, facts: Facts) -> list[str]:
        """X such that e == len(X)."""
        if isinstance(e, ast.Call) and isinstance(e.func, ast.Name) and e.func.id == 'len' and len(e.args) == 1:
            return [norm(e.args[0])]
        t = norm(e)
        if t in LEN_ALIASES:
            return LEN_ALIASES[t]
        return [x for (v, x) in facts.le if v == t and (('=' + t), x) in facts.le]

    def upper(self, e: ast.expr, facts: Facts) -> tuple[set[str], set[str]]:
        """(X with e < len(X), X with e <= len(X))"""
        t = norm(e)
        lt = {x for (v, x) in facts.lt if v == t}
        le = {x for (v, x) in facts.le if v == t} | lt
        for x in self.texts_of_len(e, facts):
            le.add(x)
        if isinstance(e, ast.IfExp):
            l1, e1 = self.upper(e.body, facts)
            l2, e2 = self.upper(e.orelse, facts)
            lt |= l1 & l2
            le |= e1 & e2
        if isinstance(e, ast.Call) and isinstance(e.func, ast.Attribute) and e.func.attr in ('find', 'rfind', 'index'):
            lt.add(norm(e.func.value))
        if isinstance(e, ast.BinOp) and isinstance(e.op, ast.Add):
            # text.find(sub, ..) + LEN   with LEN = len(sub)
            for a_, b_ in ((e.left, e.right), (e.right, e.left)):
                av = a_
                if isinstance(av, ast.Name):
                    pass
                tx = None
                if isinstance(a_, ast.Call) and isinstance(a_.func, ast.Attribute) and a_.func.attr == 'find' and a_.args:
                    tx, sub = norm(a_.func.value), norm(a_.args[0])
                else:
                    for (v, x) in facts.le:
                        if v == '~find:' + norm(a_):
                            tx, sub = x.split('|', 1)
                if tx and isinstance(b_, ast.Name) and self.len_consts.get(b_.id) == sub:
                    le.add(tx)
        if isinstance(e, ast.Call) and isinstance(e.func, ast.Name) and e.func.id in self.return_bounds:
            ti = self.return_bounds[e.func.id]
            if ti < len(e.args):
                lt.add(norm(e.args[ti]))
        if isinstance(e, ast.Call) and isinstance(e.func, ast.Name) and e.func.id == 'min':
            for a_ in e.args:
                l1, e1 = self.upper(a_, facts)
                lt |= l1
                le |= e1
        return lt, le

    def cond_facts(self, test: ast.expr, truth: bool, facts: Facts) -> Facts:
        """Facts added when TEST evaluates to TRUTH."""
        out = Facts()
        if isinstance(test, ast.Call) and isinstance(test.func, ast.Attribute) and norm(test.func.value) == 'self' \
                and not test.args and self.fn.cls is not None and test.func.attr in self.fn.cls.methods:
            # self.atend()  ->  the expression that method returns
            m = self.fn.cls.methods[test.func.attr]
            body = [x for x in m.node.body if not (isinstance(x, ast.Expr) and isinstance(x.value, ast.Constant))]
            if len(body) == 1 and isinstance(body[0], ast.Return) and body[0].value is not None:
                return self.cond_facts(body[0].value, truth, facts)
        if isinstance(test, ast.Call) and isinstance(test.func, ast.Name) and not test.keywords:
            if test.func.id == 'bool' and len(test.args) == 1:
                return self.cond_facts(test.args[0], truth, facts)
            # module-level predicate  f(a, b)  whose body is `return <expr>`: the expression with the arguments substituted
            for d in self.fn.module.tree.body:
                if isinstance(d, ast.FunctionDef) and d.name == test.func.id and d is not self.fn.node:
                    body = [x for x in d.body if not (isinstance(x, ast.Expr) and isinstance(x.value, ast.Constant))]
                    params = [a_.arg for a_ in d.args.args]
                    if len(body) == 1 and isinstance(body[0], ast.Return) and body[0].value is not None \
                            and len(params) == len(test.args) and not d.args.vararg and not d.args.kwarg \
                            and all(isinstance(a_, (ast.Name, ast.Attribute)) for a_ in test.args):
                        import copy
                        sub = dict(zip(params, test.args))

                        class _S(ast.NodeTransformer):
                            def visit_Name(self, n):  # noqa: N802
                                return copy.deepcopy(sub[n.id]) if n.id in sub else n
                        return self.cond_facts(_S().visit(copy.deepcopy(body[0].value)), truth, facts)
        if isinstance(test, ast.UnaryOp) and isinstance(test.op, ast.Not):
            return self.cond_facts(test.operand, not truth, facts)
        if isinstance(test, ast.Compare) and len(test.ops) > 1 and truth:
            # a <= b < c  holds: every adjacent pair holds
            terms = [test.left, *test.comparators]
            for (l_, op_, r_) in zip(terms, test.ops, terms[1:]):
                out.join_in(self.cond_facts(ast.Compare(left=l_, ops=[op_], comparators=[r_]), True, facts))
            return out
        if isinstance(test, ast.BoolOp):
            if (isinstance(test.op, ast.And) and truth) or (isinstance(test.op, ast.Or) and not truth):
                for v in test.values:
                    out.join_in(self.cond_facts(v, truth, facts))
            return out
        if isinstance(test, ast.Compare) and len(test.ops) == 1:
            l, r, op = test.left, test.comparators[0], test.ops[0]
            if isinstance(l, ast.NamedExpr):
                l = l.target
            # normalise to  A < B  /  A <= B  holding on this branch
            rel = None
            if isinstance(op, ast.Lt):
                rel = ('lt', l, r) if truth else ('le', r, l)
            elif isinstance(op, ast.LtE):
                rel = ('le', l, r) if truth else ('lt', r, l)
            elif isinstance(op, ast.Gt):
                rel = ('lt', r, l) if truth else ('le', l, r)
            elif isinstance(op, ast.GtE):
                rel = ('le', r, l) if truth else ('lt', l, r)
            elif isinstance(op, ast.NotEq) and truth or isinstance(op, ast.Eq) and not truth:
                return out
            if rel:
                kind, a_, b_ = rel
                blt, ble = self.upper(b_, facts)
                if kind == 'lt':
                    for x in ble:
                        out.lt.add((norm(a_), x))
                else:
                    for x in blt:
                        out.lt.add((norm(a_), x))
                    for x in ble - blt:
                        out.le.add((norm(a_), x))
        return out

    # ------------------------------------------------------------ expressions
    def check_expr(self, e: ast.AST | None, facts: Facts) -> None:
        if e is None:
            return
        if isinstance(e, (ast.Lambda, ast.FunctionDef, ast.AsyncFunctionDef, ast.ClassDef)):
            return
        if isinstance(e, ast.BoolOp):
            f = facts.copy()
            for v in e.values:
                self.check_expr(v, f)
                f.join_in(self.cond_facts(v, isinstance(e.op, ast.And), f))
            return
        if isinstance(e, ast.IfExp):
            self.check_expr(e.test, facts)
            ft = facts.copy()
            ft.join_in(self.cond_facts(e.test, True, facts))
            ff = facts.copy()
            ff.join_in(self.cond_facts(e.test, False, facts))
            self.check_expr(e.body, ft)
            self.check_expr(e.orelse, ff)
            return
        if isinstance(e, (ast.ListComp, ast.SetComp, ast.GeneratorExp, ast.DictComp)):
            f = facts.copy()
            for g in e.generators:
                self.check_expr(g.iter, f)
                self.bind_loop_target(g.target, g.iter, f)
                for c in g.ifs:
                    self.check_expr(c, f)
                    f.join_in(self.cond_facts(c, True, f))
            if isinstance(e, ast.DictComp):
                self.check_expr(e.key, f)
                self.check_expr(e.value, f)
            else:
                self.check_expr(e.elt, f)
            return
        if isinstance(e, ast.Subscript) and isinstance(e.ctx, ast.Load):
            self.check_expr(e.value, facts)
            if not isinstance(e.slice, ast.Slice):
                self.check_expr(e.slice, facts)
                self.check_index(e, facts)
            else:
                for part in (e.slice.lower, e.slice.upper, e.slice.step):
                    self.check_expr(part, facts)
            return
        if isinstance(e, ast.Call):
            self.check_call_preconds(e, facts)
        for c in ast.iter_child_nodes(e):
            self.check_expr(c, facts)

    def check_index(self, sub: ast.Subscript, facts: Facts) -> None:
        x = norm(sub.value)
        if x not in TEXT_NAMES:
            return
        idx = sub.slice
        try:
            ast.literal_eval(idx)
            return  # constant index: not a scanner position
        except Exception:  # noqa: BLE001
            pass
        lt, _ = self.upper(idx, facts)
        ok = x in lt or any(x in (al if isinstance(al, list) else [al]) for al in [list(lt)])
        # aliases between text names of one object
        if not ok:
            for group in (['self.textstr', 'self.text'],):
                if x in group and any(g in lt for g in group):
                    ok = True
        self.checked.append(f'{norm(sub)}@{sub.lineno}')
        if not ok:
            params = self.fn.params
            msg = f'`{norm(sub)}`: no dominating bound `{norm(idx)} < len({x})`'
            hi = self.range_hi.get(idx.id) if isinstance(idx, ast.Name) else None
            if isinstance(idx, ast.Name) and idx.id in params and x in params and self.fn.cls is None \
                    and not self._assigned(idx.id) and not self._assigned(x):
                # a helper indexing its own parameters: becomes a precondition checked at every call site
                self.param_violations.append((params.index(x), params.index(idx.id), sub, msg))
            elif isinstance(hi, ast.Name) and hi.id in params and x in params and self.fn.cls is None \
                    and not self._assigned(hi.id) and not self._assigned(x):
                # for k in range(lo, HI): text[k]  with HI a parameter: callers must establish HI <= len(text)
                key = (params.index(x), params.index(hi.id))
                self.param_kinds[key] = 'le'
                self.param_violations.append((*key, sub, f'`{norm(sub)}`: the loop bound `{hi.id}` must satisfy {hi.id} <= len({x})'))
            else:
                self.violations.append((sub, msg))

    def _assigned(self, name: str) -> bool:
        return any(isinstance(n, ast.Name) and n.id == name and isinstance(n.ctx, ast.Store) for n in ast.walk(self.fn.node))

    def check_call_preconds(self, e: ast.Call, facts: Facts) -> None:
        if isinstance(e.func, ast.Name) and e.func.id in self.preconds:
            for pc in self.preconds[e.func.id]:
                ti, ii = pc[0], pc[1]
                kind = pc[2] if len(pc) > 2 else 'lt'
                if ti < len(e.args) and ii < len(e.args):
                    lt, le_ = self.upper(e.args[ii], facts)
                    self.checked.append(f'{norm(e)}@{e.lineno}')
                    if kind == 'le':
                        if norm(e.args[ti]) not in (lt | le_):
                            self.violations.append((e, f'`{norm(e)}`: {e.func.id}() scans its text argument up to the given bound, '
                                                       f'but `{norm(e.args[ii])} <= len({norm(e.args[ti])})` does not hold here'))
                        continue
                    if norm(e.args[ti]) not in lt:
                        self.violations.append((e, f'`{norm(e)}`: {e.func.id}() indexes its text argument at the given position, '
                                                   f'but no bound `{norm(e.args[ii])} < len({norm(e.args[ti])})` holds here'))

    def bind_loop_target(self, target: ast.expr, it: ast.expr, facts: Facts) -> None:
        if isinstance(target, ast.Name):
            facts.kill(target.id)
            if isinstance(it, ast.Call) and isinstance(it.func, ast.Name) and it.func.id == 'range' and it.args:
                hi = it.args[0] if len(it.args) == 1 else it.args[1]
                self.range_hi[target.id] = hi
                lt, le = self.upper(hi, facts)
                for x in le:
                    facts.lt.add((target.id, x))
        else:
            for n in ast.walk(target):
                if isinstance(n, ast.Name):
                    facts.kill(n.id)

    # ------------------------------------------------------------- statements
    def exits(self, body: list[ast.stmt]) -> bool:
        if not body:
            return False
        last = body[-1]
        if isinstance(last, (ast.Return, ast.Raise, ast.Break, ast.Continue)):
            return True
        if isinstance(last, ast.If):
            return self.exits(last.body) and self.exits(last.orelse)
        return False

    def block(self, stmts: list[ast.stmt], facts: Facts) -> Facts:
        for s in stmts:
            facts = self.stmt(s, facts)
        return facts

    def assign(self, target: ast.expr, value: ast.expr | None, facts: Facts) -> None:
        if isinstance(target, ast.Name):
            v = target.id
            new_lt, new_le = (set(), set())
            if value is not None:
                new_lt, new_le = self.upper(value, facts)
            facts.kill(v)
            for x in new_lt:
                facts.lt.add((v, x))
            for x in new_le - new_lt:
                facts.le.add((v, x))
            if value is not None:
                for x in self.texts_of_len(value, facts):
                    facts.le.add((v, x))
                    facts.le.add(('=' + v, x))
                if isinstance(value, ast.Call) and isinstance(value.func, ast.Attribute) and value.func.attr == 'find' and value.args:
                    facts.le.add(('~find:' + v, norm(value.func.value) + '|' + norm(value.args[0])))
        else:
            for n in ast.walk(target):
                if isinstance(n, ast.Name) and isinstance(n.ctx, ast.Store):
                    facts.kill(n.id)

    def stmt(self, s: ast.stmt, facts: Facts) -> Facts:
        if isinstance(s, (ast.FunctionDef, ast.AsyncFunctionDef, ast.ClassDef)):
            return facts
        if isinstance(s, ast.Assign):
            self.check_expr(s.value, facts)
            self._walrus(s.value, facts)
            for t in s.targets:
                self.assign(t, s.value, facts)
            return facts
        if isinstance(s, ast.AnnAssign):
            self.check_expr(s.value, facts)
            if s.value is not None:
                self.assign(s.target, s.value, facts)
            return facts
        if isinstance(s, ast.AugAssign):
            self.check_expr(s.value, facts)
            if isinstance(s.target, ast.Name):
                facts.kill(s.target.id)
            return facts
        if isinstance(s, ast.Return) and s.value is not None:
            try:
                v = ast.literal_eval(s.value)
                self.returns_seen.append({'*'} if isinstance(v, int) and v < 0 else set())
            except Exception:  # noqa: BLE001
                self.returns_seen.append(set(self.upper(s.value, facts)[0]))
        if isinstance(s, (ast.Expr, ast.Return, ast.Raise, ast.Assert, ast.Delete)):
            for c in ast.iter_child_nodes(s):
                self.check_expr(c, facts)
                self._walrus(c, facts)
            return facts
        if isinstance(s, ast.If):
            self.check_expr(s.test, facts)
            self._walrus(s.test, facts)
            ft = facts.copy()
            ft.join_in(self.cond_facts(s.test, True, facts))
            ff = facts.copy()
            ff.join_in(self.cond_facts(s.test, False, facts))
            rt = self.block(s.body, ft)
            rf = self.block(s.orelse, ff)
            et, ef = self.exits(s.body), self.exits(s.orelse)
            if et and ef:
                return rf
            if et:
                return rf
            if ef:
                return rt
            return rt.meet(rf)
        if isinstance(s, ast.While):
            # facts at the head: only what survives the body (kill everything assigned in the loop)
            head = facts.copy()
            for n in ast.walk(s):
                if isinstance(n, ast.Name) and isinstance(n.ctx, ast.Store):
                    head.kill(n.id)
            self.check_expr(s.test, head)
            fb = head.copy()
            fb.join_in(self.cond_facts(s.test, True, head))
            self.block(s.body, fb)
            out = head.copy()
            has_break = any(isinstance(n, ast.Break) for n in ast.walk(s))
            if not has_break:
                out.join_in(self.cond_facts(s.test, False, head))
            return self.block(s.orelse, out) if s.orelse else out
        if isinstance(s, ast.For):
            self.check_expr(s.iter, facts)
            head = facts.copy()
            for n in ast.walk(s):
                if isinstance(n, ast.Name) and isinstance(n.ctx, ast.Store):
                    head.kill(n.id)
            fb = head.copy()
            self.bind_loop_target(s.target, s.iter, fb)
            # bounds of range() are evaluated with the facts before the loop
            if isinstance(s.iter, ast.Call) and isinstance(s.iter.func, ast.Name) and s.iter.func.id == 'range' and isinstance(s.target, ast.Name):
                hi = s.iter.args[0] if len(s.iter.args) == 1 else s.iter.args[1]
                _, le = self.upper(hi, facts)
                for x in le:
                    fb.lt.add((s.target.id, x))
            self.block(s.body, fb)
            return self.block(s.orelse, head) if s.orelse else head
        if isinstance(s, ast.Try):
            out = self.block(s.body, facts.copy())
            for h in s.handlers:
                self.block(h.body, facts.copy())
            out = self.block(s.orelse, out)
            if s.finalbody:
                out = self.block(s.finalbody, out)
            return out.meet(facts)
        if isinstance(s, ast.With):
            for it in s.items:
                self.check_expr(it.context_expr, facts)
            return self.block(s.body, facts)
        if isinstance(s, ast.Match):
            self.check_expr(s.subject, facts)
            outs = [self.block(c.body, facts.copy()) for c in s.cases]
            res = facts
            for o in outs:
                res = res.meet(o)
            return res
        return facts

    def _walrus(self, e: ast.AST | None, facts: Facts) -> None:
        if e is None:
            return
        for n in ast.walk(e):
            if isinstance(n, ast.NamedExpr) and isinstance(n.target, ast.Name):
                self.assign(n.target, n.value, facts)

    def run(self) -> None:
        from ..loader import EXECUTED
        EXECUTED.add(self.fn.qualname)
        self.block(self.fn.node.body, Facts())


def module_len_consts(mod) -> dict[str, str]:
    out = {}
    for name, val in mod.assigns.items():
        if isinstance(val, ast.Call) and isinstance(val.func, ast.Name) and val.func.id == 'len' and len(val.args) == 1:
            out[name] = norm(val.args[0])
    return out


def return_bound(fn: FuncInfo, consts: dict[str, str]) -> int | None:
    """Index of the parameter X such that every return value of FN is a negative constant or < len(X)."""
    bc = BoundsChecker(fn, consts)
    bc.run()
    if not bc.returns_seen or fn.cls is not None:
        return None
    for i, p in enumerate(fn.params):
        if all(('*' in r) or (p in r) for r in bc.returns_seen) and any(p in r for r in bc.returns_seen):
            return i
    return None
