"""Operand coverage of a structural recursion over the grammar-expression classes (shared by C08.R7 and C01.R6).

For every subclass of tatsu.peg.base.Model that declares operand fields (dataclass fields typed Model, list[Model] or Option
lists) and every method/property name of `recursions`, find the implementation the class resolves to through the MRO, follow its
`super().<name>` chain, and collect the `self.<field>` reads.  An operand field that is not read (and is not folded into `exp` by
__post_init__) is invisible to that recursion.
"""
from __future__ import annotations

import ast

from ..classes import dataclass_fields
from ..loader import dotted, norm, walk_no_defs

MODEL = 'tatsu.peg.base.Model'


def _super_use(node, mname) -> bool:
    for x in walk_no_defs(node):
        # super().m(...)  or  super().m  (property)
        if isinstance(x, ast.Attribute) and x.attr == mname and isinstance(x.value, ast.Call) and dotted(x.value.func) == 'super':
            return True
    return False


def operand_coverage(a, recursions):
    for c in sorted(set(a.ct.subclasses(MODEL)) | {MODEL}):
        ci = a.p.classes.get(c)
        if ci is None:
            continue
        operands = [f.name for f in dataclass_fields(a.ct, c) if not f.name.startswith('_') and f.annotation
                    and any(t in f.annotation for t in ('Model', 'Option')) and 'ref' not in f.annotation]
        if not operands:
            continue
        # operands folded into exp by __post_init__
        folded = set()
        for q in a.ct.mro(c):
            k = a.p.classes.get(q)
            pi = k.methods.get('__post_init__') if k else None
            if pi is None:
                continue
            for n in walk_no_defs(pi.node):
                if isinstance(n, ast.Assign) and any(norm(t) == 'self.exp' for t in n.targets):
                    folded |= {x.attr for x in ast.walk(n.value) if isinstance(x, ast.Attribute) and norm(x.value) == 'self'}
                # an operand that __post_init__ builds FROM exp (BasedRule.rhs = Sequence([base.exp, self.exp])) adds no reference
                for t in (n.targets if isinstance(n, ast.Assign) else []):
                    if isinstance(t, ast.Attribute) and norm(t.value) == 'self' and any(
                            isinstance(x, ast.Attribute) and norm(x) == 'self.exp' for x in ast.walk(n.value)):
                        folded.add(t.attr)
        for mname in recursions:
            impl = a.ct.lookup(c, mname)
            if impl is None:
                continue
            reads = set()
            seen = set()
            cur = impl
            while cur is not None and cur.qualname not in seen:
                seen.add(cur.qualname)
                reads |= {x.attr for x in walk_no_defs(cur.node) if isinstance(x, ast.Attribute) and norm(x.value) == 'self'}
                nxt = None
                if _super_use(cur.node, mname) and cur.cls is not None:
                    mro = a.ct.mro(c)
                    if cur.cls.qualname in mro:
                        for q in mro[mro.index(cur.cls.qualname) + 1:]:
                            k = a.p.classes.get(q)
                            if k and mname in k.methods:
                                nxt = k.methods[mname]
                                break
                cur = nxt
            missing = [f for f in operands if f not in reads and not (f in folded and 'exp' in reads)]
            yield c, mname, impl, operands, missing, ci.loc
