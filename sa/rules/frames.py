"""State-frame discipline of the parser engine (ParseStateStack push/new vs pop/undo/merge)."""
from __future__ import annotations

import ast

from ..context import Analysis
from ..loader import FuncInfo, dotted, norm, walk_no_defs
from ..paths import FOREIGN, FP, PE, Exc, Executor, Out, Semantics

STACK = 'tatsu.contexts.state.ParseStateStack'
PUSHERS = {'push', 'new'}
POPPERS = {'pop', 'undo', 'merge'}


def stack_op(a: Analysis, fn: FuncInfo, call: ast.Call) -> str | None:
    """'push'/'new'/'pop'/'undo'/'merge' if CALL is that method of the ParseStateStack."""
    f = call.func
    if not isinstance(f, ast.Attribute) or f.attr not in PUSHERS | POPPERS:
        return None
    r = a.resolver.resolve_call(fn, call)
    if r.kind == 'project' and any(t.qualname == f'{STACK}.{f.attr}' for t in r.targets):
        if r.recv_type and all(a.ct.is_subclass(t, STACK) for t in r.recv_type):
            return f.attr
        if not r.recv_type:
            # untyped receiver: accept only the syntactic form  <x>.states.<op>()
            if isinstance(f.value, ast.Attribute) and f.value.attr == 'states':
                return f.attr
            return None
        return f.attr
    if isinstance(f.value, ast.Attribute) and f.value.attr == 'states':
        return f.attr
    return None


class DepthSem(Semantics):
    """State = (depth, ops) where ops is the tuple of closing operations seen (for reports)."""

    def __init__(self, a: Analysis, bindings: dict | None = None):
        self.a = a
        self.bindings = bindings or {}

    def call(self, ex, fn, node, state):
        op = stack_op(self.a, fn, node)
        if op is None:
            return ex.default_call(fn, node, state)
        depth = state
        if op in PUSHERS:
            return [('next', depth + 1, None)]
        return [('next', depth - 1, None)]

    def tracked(self, ex, fn, node):
        return stack_op(self.a, fn, node) is not None

    def test(self, ex, fn, test, state):
        # statescope(merge=...) inlined with a constant keyword: follow only the feasible arm
        if isinstance(test, ast.Name) and (fn.qualname, test.id) in self.bindings:
            v = self.bindings[(fn.qualname, test.id)]
            return ([state], []) if v else ([], [state])
        return [state], [state]

    def enter_inline(self, ex, fn, call, target):
        for kw in call.keywords:
            if kw.arg and isinstance(kw.value, ast.Constant):
                self.bindings[(target.qualname, kw.arg)] = kw.value.value


def pushing_functions(a: Analysis) -> list[FuncInfo]:
    out = []
    for f in a.p.functions.values():
        if not f.qualname.startswith(('tatsu.contexts.', 'tatsu.peg.', 'tatsu.parsing')):
            continue
        for n in walk_no_defs(f.node):
            if isinstance(n, ast.Call) and stack_op(a, f, n) in PUSHERS:
                if f.qualname.startswith(STACK):
                    continue
                out.append(f)
                break
    return out


def generic_hole(state):
    """What a with-body / generator consumer may do: complete, or raise anything."""
    return {Out('next', state), Out('raise', state, Exc(PE, 'with-body')), Out('raise', state, Exc(FOREIGN, 'with-body'))}


def classify_exc(a: Analysis, e: Exc) -> str:
    mro = a.ct.mro(e.bound)
    if FP in mro:
        return 'failedparse'
    if PE in mro:
        return 'parseexception'
    if e.bound in a.ct.mro(FP):
        return 'parseexception'  # wider bound that may include ParseException
    return 'foreign'


def run_depth(a: Analysis, fn: FuncInfo) -> set[Out]:
    sem = DepthSem(a)
    ex = Executor(a.p, a.ct, a.resolver, sem, raises=a.raises)
    is_cm = any(d.split('.')[-1] == 'contextmanager' for d in fn.decorators)
    return ex.run(fn, 0, hole=generic_hole if is_cm else None)
