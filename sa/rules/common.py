"""Rule helpers shared by several properties."""
from __future__ import annotations

import ast
from typing import Callable

from ..context import Analysis
from ..loader import FuncInfo, dotted, norm, walk_no_defs
from ..paths import FOREIGN, FP, PE, Exc, Executor, Out, Semantics
from ..report import RuleReport

PROTOCOL = 'typing.Protocol'


class FlagSem(Semantics):
    """State = frozenset of flags; FLAGGER(ex, fn, call, state) returns the flags a call sets (or ())."""

    def __init__(self, flagger: Callable[[Executor, FuncInfo, ast.Call, frozenset], tuple]):
        self.flagger = flagger

    def call(self, ex, fn, node, state):
        flags = self.flagger(ex, fn, node, state)
        if flags:
            state = frozenset(state | set(flags))
        return ex.default_call(fn, node, state)

    def tracked(self, ex, fn, node):
        return bool(self.flagger(ex, fn, node, frozenset()))


def run_flags(a: Analysis, fn: FuncInfo, flagger, hole=None) -> set[Out]:
    ex = Executor(a.p, a.ct, a.resolver, FlagSem(flagger), raises=a.raises)
    return ex.run(fn, frozenset(), hole=hole)


def exits_missing_flag(a: Analysis, fn: FuncInfo, flagger, flag: str, kinds=('return',)) -> list[Out]:
    """Outcomes of FN (of the given kinds) that were reached without FLAG being set."""
    return [o for o in run_flags(a, fn, flagger) if o.kind in kinds and flag not in o.state]


def any_flag(a: Analysis, fn: FuncInfo, flagger, flag: str) -> bool:
    """True if some path through FN sets FLAG (at any exit, normal or exceptional)."""
    return any(flag in o.state for o in run_flags(a, fn, flagger))


def is_super_call(node: ast.Call, method: str) -> bool:
    f = node.func
    return (isinstance(f, ast.Attribute) and f.attr == method and isinstance(f.value, ast.Call)
            and isinstance(f.value.func, ast.Name) and f.value.func.id == 'super')


def rule_chain(a: Analysis, rule_id: str) -> RuleReport:
    """R-CHAIN: cooperative __init_subclass__ in front of typing.Protocol."""
    rep = RuleReport(
        rule_id,
        'R-CHAIN: for every class whose static MRO contains typing.Protocol, each __init_subclass__ defined by a '
        'class that precedes Protocol in that MRO calls super().__init_subclass__(...) on every path to a normal '
        'exit; otherwise Protocol.__init_subclass__ never runs, the subclasses keep _is_protocol=True and '
        'isinstance() against them is structural (true for any object with the members)',
        floor=2,
    )
    by_def: dict[str, list[str]] = {}
    for q in a.p.classes:
        mro = a.ct.mro(q)
        if PROTOCOL not in mro:
            continue
        if PROTOCOL in a.ct.bases(q):
            continue  # a protocol definition itself
        for d in mro[: mro.index(PROTOCOL)]:
            ci = a.p.classes.get(d)
            if ci and '__init_subclass__' in ci.methods:
                by_def.setdefault(d, []).append(q)

    def flagger(ex, fn, call, state):
        return ('chained',) if is_super_call(call, '__init_subclass__') else ()

    for d, affected in sorted(by_def.items()):
        fn = a.p.classes[d].methods['__init_subclass__']
        bad = exits_missing_flag(a, fn, flagger, 'chained')
        rep.add({'defines': fn.qualname, 'loc': fn.loc, 'classes_depending': len(affected),
                 'examples': sorted(affected)[:5], 'chains_on_every_path': not bad})
        if bad:
            rep.fail(
                fn.qualname, 'no-super-init-subclass',
                f'__init_subclass__ does not call super().__init_subclass__() on every path; '
                f'{len(affected)} classes with typing.Protocol later in their MRO (e.g. '
                f'{", ".join(c.split(".")[-1] for c in sorted(affected)[:6])}) keep _is_protocol=True, '
                f'so isinstance(x, <that class>) succeeds structurally for unrelated objects',
                fn.loc,
            )
    # who relies on it: isinstance / case K() against Model subclasses
    model = 'tatsu.peg.base.Model'
    sites = 0
    if model in a.p.classes:
        for f in a.p.functions.values():
            if not f.qualname.startswith(('tatsu.peg.', 'tatsu.ngcodegen.', 'tatsu.g2e.', 'tatsu.railroads.')):
                continue
            for n in walk_no_defs(f.node):
                names: list[ast.expr] = []
                if isinstance(n, ast.Call) and isinstance(n.func, ast.Name) and n.func.id == 'isinstance' and len(n.args) == 2:
                    names = _flatten_types(n.args[1])
                elif isinstance(n, ast.MatchClass):
                    names = [n.cls]
                for t in names:
                    q = a.p.resolve_expr(f.module, t)
                    if q in a.p.classes and a.ct.is_subclass(q, model):
                        sites += 1
        rep.notes.append(f'{sites} isinstance()/case sites in peg/ngcodegen/g2e/railroads test against Model '
                         f'subclasses and rely on nominal class identity')
    return rep


def _flatten_types(node: ast.expr) -> list[ast.expr]:
    if isinstance(node, ast.Tuple):
        out = []
        for e in node.elts:
            out.extend(_flatten_types(e))
        return out
    if isinstance(node, ast.BinOp) and isinstance(node.op, ast.BitOr):
        return _flatten_types(node.left) + _flatten_types(node.right)
    return [node]


def find_calls(fn: FuncInfo, pred: Callable[[ast.Call], bool]) -> list[ast.Call]:
    return [n for n in walk_no_defs(fn.node) if isinstance(n, ast.Call) and pred(n)]


def attr_chain(node: ast.AST) -> list[str]:
    """['self','states','push'] for self.states.push"""
    out: list[str] = []
    while isinstance(node, ast.Attribute):
        out.append(node.attr)
        node = node.value
    if isinstance(node, ast.Name):
        out.append(node.id)
    elif isinstance(node, ast.Call):
        out.append(dotted(node.func) + '()')
    else:
        out.append('?')
    return list(reversed(out))


def _bindings(fn, name: str) -> list:
    out = []
    for n in walk_no_defs(fn.node):
        if isinstance(n, ast.Assign):
            for t in n.targets:
                for x in ast.walk(t):
                    if isinstance(x, ast.Name) and x.id == name and isinstance(x.ctx, ast.Store):
                        out.append(n.value if (len(n.targets) == 1 and t is x) else None)
        elif isinstance(n, (ast.AugAssign, ast.AnnAssign)) and isinstance(n.target, ast.Name) and n.target.id == name:
            out.append(n.value if isinstance(n, ast.AnnAssign) and n.value is not None else None)
        elif isinstance(n, ast.NamedExpr) and n.target.id == name:
            out.append(n.value)
        elif isinstance(n, (ast.For, ast.comprehension)):
            if any(isinstance(x, ast.Name) and x.id == name for x in ast.walk(n.target)):
                out.append(None)
        elif isinstance(n, (ast.With,)):
            for it in n.items:
                if it.optional_vars is not None and any(isinstance(x, ast.Name) and x.id == name for x in ast.walk(it.optional_vars)):
                    out.append(None)
        elif isinstance(n, ast.ExceptHandler) and n.name == name:
            out.append(None)
    return out


def local_single_assignment(fn, name: str):
    """the value expression of the ONLY binding of the local NAME in fn; None when NAME is a parameter, is bound more
    than once, or is bound by anything else than `name = <expr>` / `name: T = <expr>` / `(name := <expr>)`"""
    if name in fn.params:
        return None
    b = _bindings(fn, name)
    return b[0] if len(b) == 1 else None


def conjuncts(fn, test, depth: int = 0) -> list:
    """the conjuncts of TEST, looking through `and` and through locals bound exactly once (`ok = a and b; if ok:`)"""
    if isinstance(test, ast.BoolOp) and isinstance(test.op, ast.And):
        return [c for v in test.values for c in conjuncts(fn, v, depth)]
    if isinstance(test, ast.Name) and depth < 4:
        v = local_single_assignment(fn, test.id)
        if v is not None:
            return conjuncts(fn, v, depth + 1)
    return [test]


def through_locals(fn, e, depth: int = 0):
    """E with a Name bound exactly once in fn replaced by the bound expression (`x = f(); return x` -> `f()`)"""
    if isinstance(e, ast.Name) and depth < 4:
        v = local_single_assignment(fn, e.id)
        if v is not None:
            return through_locals(fn, v, depth + 1)
    return e


def always_exits(block: list) -> bool:
    if not block:
        return False
    last = block[-1]
    if isinstance(last, (ast.Return, ast.Raise, ast.Continue, ast.Break)):
        return True
    if isinstance(last, ast.If):
        return always_exits(last.body) and always_exits(last.orelse)
    return False


def dominating_conditions(fn, parents: dict, node) -> list:
    """Conditions known to hold when NODE runs (as positive expressions, conjuncts flattened, single-use locals looked through):
    tests of enclosing `if` statements whose body holds NODE, and - for every earlier sibling `if T: <always leaves>` of an
    enclosing block - the negation of T when T is written `not X` (so `if not (a and b): return` dominates with a, b)."""
    out = []
    cur = node
    while id(cur) in parents:
        par = parents[id(cur)]
        if isinstance(par, ast.If):
            if any(cur is s_ for s_ in par.body):
                out += conjuncts(fn, par.test)
        for fld in ('body', 'orelse', 'finalbody'):
            blk = getattr(par, fld, None)
            if isinstance(blk, list) and any(cur is s_ for s_ in blk):
                for s_ in blk[:[id(x) for x in blk].index(id(cur))]:
                    if isinstance(s_, ast.If) and not s_.orelse and always_exits(s_.body):
                        t = s_.test
                        if isinstance(t, ast.Name):
                            v = local_single_assignment(fn, t.id)
                            t = v if v is not None else t
                        if isinstance(t, ast.UnaryOp) and isinstance(t.op, ast.Not):
                            out += conjuncts(fn, t.operand)
        if isinstance(par, (ast.FunctionDef, ast.AsyncFunctionDef)):
            break
        cur = par
    return out


# ----------------------------------------------------------------------------------------------------------------------------------
# per-call state of a long-lived parser object ends with the call (C10.R11 = C02.R13)

class _FeedSem(Semantics):
    """State = frozenset of attributes of self that currently hold a per-call value the NEXT call would build on."""

    def __init__(self, dirty_stores: dict, restores: set):
        self.dirty_stores = dirty_stores  # id(Assign node) -> attribute
        self.restores = restores  # id(Assign node) of stores whose value mentions no local

    def after_stmt(self, ex, fn, node, state):
        if isinstance(node, ast.Assign):
            if id(node) in self.dirty_stores:
                return frozenset(state | {self.dirty_stores[id(node)]})
            # a store of the object's OWN value (no local in it) - in bound() itself or in a private helper the executor runs in place, whose
            # context parameter it has replaced by `self` (`_unbind(engine)`: engine._active_config = engine._config)
            own = not any(isinstance(x, ast.Name) and isinstance(x.ctx, ast.Load) and x.id != 'self' for x in ast.walk(node.value))
            if id(node) in self.restores or own:
                gone = {norm(t).split('.', 1)[1] for t in node.targets if isinstance(t, ast.Attribute) and norm(t.value) == 'self'}
                return frozenset(state - gone)
        return state


def per_call_state_ends_with_the_call(a: Analysis, rule_id: str) -> RuleReport:
    from .frames import classify_exc, generic_hole
    rep = RuleReport(
        rule_id,
        'what one parse() sets on a long-lived parser object does not leak into the next one: an attribute of the parser whose per-call '
        'value bound() DERIVES FROM ITS OWN PREVIOUS VALUE (self.config -> _active_config: the per-call configuration is built by '
        'overriding the active one) is stored back from the object\'s own defaults on EVERY exit of bound() - normal, failed parse, any '
        'other exception raised by the parse or by a semantic action [paths: state = attributes holding a self-fed per-call value]. '
        'Otherwise the settings of one call (start=, ignorecase=, whitespace=, semantics=, parseinfo= ...) become the defaults of every '
        'later call on a generated parser object, which the model (a fresh context per parse) never shows',
        floor=4,
    )
    eng = a.p.func('tatsu.contexts.engine.ParserEngine.bound')
    cls_q = eng.cls.qualname if eng.cls else None
    # properties / methods of the class that just hand out an attribute: self.config -> _active_config
    hands_out: dict[str, str] = {}
    for q in (a.ct.mro(cls_q) if cls_q else ()):
        ci = a.p.classes.get(q)
        if ci is None:
            continue
        for name, m in ci.methods.items():
            body = [s for s in m.node.body if not (isinstance(s, ast.Expr) and isinstance(s.value, ast.Constant))]
            if len(body) == 1 and isinstance(body[0], ast.Return) and body[0].value is not None and norm(body[0].value).startswith('self.') \
                    and norm(body[0].value).count('.') == 1:
                hands_out.setdefault(name, norm(body[0].value).split('.', 1)[1])
    # def-use of the straight-line code of bound(): which locals depend on which attributes of self
    dep: dict[str, set] = {}

    def attrs_read(e: ast.AST) -> set:
        out = set()
        for n in ast.walk(e):
            if isinstance(n, ast.Attribute) and isinstance(n.ctx, ast.Load) and norm(n.value) == 'self':
                out.add(hands_out.get(n.attr, n.attr))
            elif isinstance(n, ast.Name) and isinstance(n.ctx, ast.Load) and n.id in dep:
                out |= dep[n.id]
        return out

    def locals_read(e: ast.AST) -> set:
        return {n.id for n in ast.walk(e) if isinstance(n, ast.Name) and isinstance(n.ctx, ast.Load) and n.id != 'self'}
    dirty: dict[int, str] = {}
    restores: set[int] = set()
    params = set(eng.params) | ({eng.node.args.kwarg.arg} if eng.node.args.kwarg else set()) | ({eng.node.args.vararg.arg} if eng.node.args.vararg else set())
    from ..loader import _ordered
    for n in _ordered(eng.node):
        if isinstance(n, ast.Assign):
            for t in n.targets:
                if isinstance(t, ast.Name):
                    dep[t.id] = dep.get(t.id, set()) | attrs_read(n.value)
                elif isinstance(t, ast.Attribute) and norm(t.value) == 'self':
                    if t.attr in attrs_read(n.value) and (locals_read(n.value) & (params | set(dep))):
                        dirty[id(n)] = t.attr
                    elif not (locals_read(n.value) & (params | set(dep))):
                        restores.add(id(n))
    fed = sorted(set(dirty.values()))
    rep.add({'function': eng.qualname, 'self_fed_attributes': fed, 'handed_out_by': {k: v for k, v in hands_out.items() if v in fed}})
    if not fed:
        rep.notes.append('bound() derives no attribute of the parser from its own previous value: nothing of one call can feed the next')
    ex = Executor(a.p, a.ct, a.resolver, _FeedSem(dirty, restores), raises=a.raises)
    outs = ex.run(eng, frozenset(), hole=generic_hole)
    seen = set()
    for o in outs:
        kind = 'normal' if o.kind in ('return', 'next') else f'raise:{classify_exc(a, o.exc) if o.exc else "?"}'
        key = (kind, tuple(sorted(o.state)))
        if key in seen:
            continue
        seen.add(key)
        rep.add({'exit_of_bound': kind, 'raised_at': (o.exc.origin if o.exc else None), 'attributes_still_holding_the_call\'s_value': sorted(o.state)})
        for attr in sorted(o.state):
            rep.fail(eng.qualname, f'per-call-state-leaks:{attr}:{kind}', f'an exit of bound() ({kind}' + (f', raised at {o.exc.origin}' if o.exc and o.exc.origin else '') +
                     f') leaves self.{attr} holding the value built for THIS call, and the next call builds its own value from it: per-call settings persist on a reused '
                     f'parser object (after ' + ('a parse that raised' if kind != 'normal' else 'a completed parse') + ')', eng.loc)
    return rep
