"""Left-recursion analysis rules shared by C03 and C16: nullable table and left-call table,
both decided by interpreting the repository's methods on stand-in model trees."""
from __future__ import annotations

import ast

from ..context import Analysis
from ..loader import AnalysisError
from ..minieval import Raised, Unsupported
from ..modelinterp import ClassRef, ModelInterp, Recorder, Stub
from ..report import Finding, RuleReport

PEG = 'tatsu.peg'
Q = {
    'Token': f'{PEG}.basic.Token', 'Void': f'{PEG}.base.Void', 'Cut': f'{PEG}.basic.Cut', 'Dot': f'{PEG}.basic.Dot',
    'Fail': f'{PEG}.basic.Fail', 'Constant': f'{PEG}.basic.Constant', 'Alert': f'{PEG}.basic.Alert', 'EOF': f'{PEG}.basic.EOF',
    'Pattern': f'{PEG}.pattern.Pattern', 'Call': f'{PEG}.syntax.Call', 'Group': f'{PEG}.syntax.Group',
    'SkipGroup': f'{PEG}.syntax.SkipGroup', 'Lookahead': f'{PEG}.syntax.Lookahead',
    'NegativeLookahead': f'{PEG}.syntax.NegativeLookahead', 'SkipTo': f'{PEG}.syntax.SkipTo', 'Optional': f'{PEG}.syntax.Optional',
    'Sequence': f'{PEG}.syntax.Sequence', 'Choice': f'{PEG}.choice.Choice', 'Option': f'{PEG}.choice.Option',
    'Closure': f'{PEG}.closure.Closure', 'PositiveClosure': f'{PEG}.closure.PositiveClosure', 'Join': f'{PEG}.closure.Join',
    'PositiveJoin': f'{PEG}.closure.PositiveJoin', 'Gather': f'{PEG}.closure.Gather', 'PositiveGather': f'{PEG}.closure.PositiveGather',
    'EmptyClosure': f'{PEG}.closure.EmptyClosure', 'Named': f'{PEG}.named.Named', 'NamedList': f'{PEG}.named.NamedList',
    'Override': f'{PEG}.named.Override', 'OverrideList': f'{PEG}.named.OverrideList', 'Rule': f'{PEG}.base.Rule',
    'RuleInclude': f'{PEG}.rulelike.RuleInclude', 'NameMeta': f'{PEG}.meta.NameMeta', 'IntMeta': f'{PEG}.meta.IntMeta',
}


class B:
    """Builder of stand-in model trees."""

    def __init__(self, a: Analysis):
        self.a = a
        for k, q in Q.items():
            a.p.cls(q)

    def leaf(self, kind: str, **kw) -> Stub:
        return Stub(Q[kind], **kw)

    def tok(self) -> Stub:
        return Stub(Q['Token'], token='t')

    def void(self) -> Stub:
        return Stub(Q['Void'])

    def pattern(self, empty: bool) -> Stub:
        rx = Recorder('regex', results={'match': (lambda interp, s, empty=empty: object() if empty else None)})
        return Stub(Q['Pattern'], pattern='x*' if empty else 'x', _regex=rx)

    def box(self, kind: str, exp: Stub, **kw) -> Stub:
        return Stub(Q[kind], exp=exp, **kw)

    def seq(self, *items: Stub) -> Stub:
        return Stub(Q['Sequence'], sequence=list(items))

    def choice(self, *opts: Stub) -> Stub:
        return Stub(Q['Choice'], options=[Stub(Q['Option'], exp=o) for o in opts])

    def call(self, name: str, rules: dict | None = None) -> Stub:
        s = Stub(Q['Call'], name=name)
        if rules is not None:
            from ..minieval import Obj
            s._attrs['grammar'] = Obj(rulemap=rules)
        return s

    def join(self, kind: str, exp: Stub, sep: Stub) -> Stub:
        return Stub(Q[kind], exp=exp, sep=sep)


def _nullable(a: Analysis, node: Stub) -> bool:
    it = ModelInterp(a)
    return bool(it.apply(it.get_attr(node, 'is_nullable'), [], {}))


def rule_nullable_table(a: Analysis, rule_id: str) -> RuleReport:
    rep = RuleReport(
        rule_id,
        'nullable table ("able to match empty"): is_nullable() of every grammar-expression class, interpreted on stand-in '
        'nodes through the static MRO, agrees with the table read off the parse primitives - always: optional, closure, join, '
        'gather, empty closure, void, cut, lookaheads, constant, alert; never: token, any-char, fail, meta; as the wrapped '
        'expression: group, skip group, named, named-list, override(s), option, rule, positive closure/join/gather, skip-to; '
        'sequence: all elements; choice: any option; pattern: its regex matches the empty string',
        floor=40,
    )
    b = B(a)
    cases: list[tuple[str, Stub, bool, bool]] = []  # (what, node, want, informational)
    for k in ('Optional', 'Closure', 'Lookahead', 'NegativeLookahead'):
        cases.append((f'{k}(token)', b.box(k, b.tok()), True, False))
    for k in ('Join', 'Gather'):
        cases.append((f'{k}(token % token)', b.join(k, b.tok(), b.tok()), True, False))
    for k in ('EmptyClosure', 'Void', 'Cut', 'Constant', 'Alert'):
        cases.append((k, b.leaf(k), True, False))
    for k in ('Token', 'Dot', 'Fail', 'NameMeta', 'IntMeta'):
        cases.append((k, b.leaf(k), False, False))
    for k in ('Group', 'SkipGroup', 'Named', 'NamedList', 'Override', 'OverrideList', 'Option', 'Rule', 'PositiveClosure', 'SkipTo'):
        extra = {'name': 'n'} if k in ('Named', 'NamedList', 'Rule') else {}
        cases.append((f'{k}(void)', b.box(k, b.void(), **extra), True, False))
        cases.append((f'{k}(token)', b.box(k, b.tok(), **extra), False, False))
    for k in ('PositiveJoin', 'PositiveGather'):
        cases.append((f'{k}(void % token)', b.join(k, b.void(), b.tok()), True, False))
        cases.append((f'{k}(token % token)', b.join(k, b.tok(), b.tok()), False, False))
    cases += [
        ('Sequence(void, void)', b.seq(b.void(), b.void()), True, False),
        ('Sequence(void, token)', b.seq(b.void(), b.tok()), False, False),
        ('Sequence(optional, closure)', b.seq(b.box('Optional', b.tok()), b.box('Closure', b.tok())), True, False),
        ('Sequence()', b.seq(), True, False),
        ('Choice(token | void)', b.choice(b.tok(), b.void()), True, False),
        ('Choice(token | token)', b.choice(b.tok(), b.tok()), False, False),
        ('Pattern(matches empty)', b.pattern(True), True, False),
        ('Pattern(never empty)', b.pattern(False), False, False),
    ]
    # calls: asked through the grammar (outside the quantifier of C16: informational)
    nullable_rule = b.box('Rule', b.void(), name='r')
    strict_rule = b.box('Rule', b.tok(), name='r')
    cases += [
        ('Call(rule matching empty)', b.call('r', {'r': nullable_rule}), True, True),
        ('Call(rule never empty)', b.call('r', {'r': strict_rule}), False, True),
        ('PositiveClosure(Call(rule matching empty))', b.box('PositiveClosure', b.call('r', {'r': nullable_rule})), True, True),
        ('PositiveJoin(Call(rule matching empty) % token)', b.join('PositiveJoin', b.call('r', {'r': nullable_rule}), b.tok()), True, True),
        ('RuleInclude(rule matching empty)', Stub(Q['RuleInclude'], name='r', _exp=b.void()), True, True),
    ]
    for what, node, want, info in cases:
        try:
            got = _nullable(a, node)
        except Unsupported as e:
            raise AnalysisError(f'cannot interpret is_nullable of {what}: {e}') from e
        rep.add({'node': what, 'is_nullable': got, 'table': want, 'informational': info})
        if got != want:
            cq = node._cls
            f = Finding(rep.rule, cq, f'nullable:{what}', f'{what}.is_nullable() = {got}, the parse primitives make it {want}: the '
                        f'left-recursion analysis {"misses calls behind it" if want else "sees calls that are never at the same position"}',
                        a.p.classes[cq].loc, [], info_only=info)
            rep.findings.append(f)
    return rep


def left_calls(a: Analysis, exp: Stub, index: dict[str, int]) -> list[int]:
    it = ModelInterp(a)
    fn = a.p.func('tatsu.peg.leftrec.pegen._callable_rule_ids')
    return list(it.call_fn(fn, [exp, index]))


def rule_left_call_table(a: Analysis, rule_id: str) -> RuleReport:
    rep = RuleReport(
        rule_id,
        'left-call table: pegen._callable_rule_ids (with _is_nullable_safe), interpreted on stand-in expression trees, returns '
        'exactly the rules that can be called at the position where the expression starts: calls preceded only by elements '
        'able to match empty (optional, closure, lookaheads, void, cut, constants, empty-matching patterns, nullable groups), '
        'through groups/named/options, and nothing behind a token, a positive closure of a token or another rule call',
        floor=20,
    )
    b = B(a)
    idx = {'a': 0, 'b': 1}
    A, Bc = (lambda: b.call('a')), (lambda: b.call('b'))
    T = b.tok
    cases = [
        ('a', b.seq(A()), [0]),
        ("'t' a", b.seq(T(), A()), []),
        ("['t'] a", b.seq(b.box('Optional', T()), A()), [0]),
        ("{'t'} a", b.seq(b.box('Closure', T()), A()), [0]),
        ("{'t'}+ a", b.seq(b.box('PositiveClosure', T()), A()), []),
        ("&'t' a", b.seq(b.box('Lookahead', T()), A()), [0]),
        ("!'t' a", b.seq(b.box('NegativeLookahead', T()), A()), [0]),
        ("'t' | a", b.choice(b.seq(T()), b.seq(A())), [0]),
        ('~ a', b.seq(b.leaf('Cut'), A()), [0]),
        ("(['t']) a", b.seq(b.box('Group', b.seq(b.box('Optional', T()))), A()), [0]),
        ("('t') a", b.seq(b.box('Group', b.seq(T())), A()), []),
        ('b a', b.seq(Bc(), A()), [1]),
        ('[a]', b.box('Optional', A()), [0]),
        ('n=a', b.box('Named', A(), name='n'), [0]),
        ('() a', b.seq(b.void(), A()), [0]),
        ('{} a', b.seq(b.leaf('EmptyClosure'), A()), [0]),
        ('`c` a', b.seq(b.leaf('Constant'), A()), [0]),
        ('/x*/ a', b.seq(b.pattern(True), A()), [0]),
        ('/x/ a', b.seq(b.pattern(False), A()), []),
        ("'t'%{'t'} a", b.seq(b.join('Join', T(), T()), A()), [0]),
        ("'t'%{'t'}+ a", b.seq(b.join('PositiveJoin', T(), T()), A()), []),
        ("['t'] {'t'} a | b", b.choice(b.seq(b.box('Optional', T()), b.box('Closure', T()), A()), b.seq(Bc())), [0, 1]),
        ("x=['t'] a", b.seq(b.box('Named', b.box('Optional', T()), name='x'), A()), [0]),
        ("{a}", b.box('Closure', A()), [0]),
    ]
    fn = a.p.func('tatsu.peg.leftrec.pegen._callable_rule_ids')
    for what, exp, want in cases:
        try:
            got = left_calls(a, exp, idx)
        except Unsupported as e:
            raise AnalysisError(f'cannot interpret _callable_rule_ids on `{what}`: {e}') from e
        rep.add({'expression': what, 'left_calls': got, 'table': want})
        if sorted(got) != sorted(want):
            names = {0: 'a', 1: 'b'}
            rep.fail(fn.qualname, f'left-calls:{what}',
                     f'for `{what}` the analysis finds the left calls {[names[i] for i in got]}, the rules callable at the start '
                     f'position are {[names[i] for i in want]}: '
                     + ('a left-recursive rule of this shape is not detected (no seed growing, no GrammarError with left recursion off)'
                        if set(want) - set(got) else 'a rule is treated as left recursive although the call is not at the same position'),
                     fn.loc)
    return rep
