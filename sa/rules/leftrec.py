"""Left-recursion analysis rules shared by C03 and C16: nullable table and left-call table,
both decided by interpreting the repository's methods on stand-in model trees."""
from __future__ import annotations

import ast

from ..context import Analysis
from ..loader import AnalysisError
from ..minieval import Raised, Unsupported
from ..modelinterp import ClassRef, ModelInterp, Recorder, Stub
from ..report import Finding, RuleReport

PEG = 'tatsu.peg'
Q = {
    'Token': f'{PEG}.basic.Token', 'Void': f'{PEG}.base.Void', 'Cut': f'{PEG}.basic.Cut', 'Dot': f'{PEG}.basic.Dot',
    'Fail': f'{PEG}.basic.Fail', 'Constant': f'{PEG}.basic.Constant', 'Alert': f'{PEG}.basic.Alert', 'EOF': f'{PEG}.basic.EOF',
    'Pattern': f'{PEG}.pattern.Pattern', 'Call': f'{PEG}.syntax.Call', 'Group': f'{PEG}.syntax.Group',
    'SkipGroup': f'{PEG}.syntax.SkipGroup', 'Lookahead': f'{PEG}.syntax.Lookahead',
    'NegativeLookahead': f'{PEG}.syntax.NegativeLookahead', 'SkipTo': f'{PEG}.syntax.SkipTo', 'Optional': f'{PEG}.syntax.Optional',
    'Sequence': f'{PEG}.syntax.Sequence', 'Choice': f'{PEG}.choice.Choice', 'Option': f'{PEG}.choice.Option',
    'Closure': f'{PEG}.closure.Closure', 'PositiveClosure': f'{PEG}.closure.PositiveClosure', 'Join': f'{PEG}.closure.Join',
    'PositiveJoin': f'{PEG}.closure.PositiveJoin', 'Gather': f'{PEG}.closure.Gather', 'PositiveGather': f'{PEG}.closure.PositiveGather',
    'EmptyClosure': f'{PEG}.closure.EmptyClosure', 'Named': f'{PEG}.named.Named', 'NamedList': f'{PEG}.named.NamedList',
    'Override': f'{PEG}.named.Override', 'OverrideList': f'{PEG}.named.OverrideList', 'Rule': f'{PEG}.base.Rule',
    'RuleInclude': f'{PEG}.rulelike.RuleInclude', 'NameMeta': f'{PEG}.meta.NameMeta', 'IntMeta': f'{PEG}.meta.IntMeta',
}


class B:
    """Builder of stand-in model trees."""

    def __init__(self, a: Analysis):
        self.a = a
        for k, q in Q.items():
            a.p.cls(q)

    def leaf(self, kind: str, **kw) -> Stub:
        return Stub(Q[kind], **kw)

    def tok(self) -> Stub:
        return Stub(Q['Token'], token='t')

    def void(self) -> Stub:
        return Stub(Q['Void'])

    def pattern(self, empty: bool) -> Stub:
        rx = Recorder('regex', results={'match': (lambda interp, s, empty=empty: object() if empty else None)})
        return Stub(Q['Pattern'], pattern='x*' if empty else 'x', _regex=rx)

    def box(self, kind: str, exp: Stub, **kw) -> Stub:
        return Stub(Q[kind], exp=exp, **kw)

    def seq(self, *items: Stub) -> Stub:
        return Stub(Q['Sequence'], sequence=list(items))

    def choice(self, *opts: Stub) -> Stub:
        return Stub(Q['Choice'], options=[Stub(Q['Option'], exp=o) for o in opts])

    def call(self, name: str, rules: dict | None = None) -> Stub:
        s = Stub(Q['Call'], name=name)
        if rules is not None:
            from ..minieval import Obj
            s._attrs['grammar'] = Obj(rulemap=rules)
        return s

    def join(self, kind: str, exp: Stub, sep: Stub) -> Stub:
        return Stub(Q[kind], exp=exp, sep=sep)


def _nullable(a: Analysis, node: Stub) -> bool:
    it = ModelInterp(a)
    return bool(it.apply(it.get_attr(node, 'is_nullable'), [], {}))


def rule_nullable_table(a: Analysis, rule_id: str) -> RuleReport:
    rep = RuleReport(
        rule_id,
        'nullable table ("able to match empty"): is_nullable() of every grammar-expression class, interpreted on stand-in '
        'nodes through the static MRO, agrees with the table read off the parse primitives - always: optional, closure, join, '
        'gather, empty closure, void, cut, lookaheads, constant, alert; never: token, any-char, fail, meta; as the wrapped '
        'expression: group, skip group, named, named-list, override(s), option, rule, positive closure/join/gather, skip-to; '
        'sequence: all elements; choice: any option; pattern: its regex matches the empty string',
        floor=40,
    )
    b = B(a)
    cases: list[tuple[str, Stub, bool, bool]] = []  # (what, node, want, informational)
    for k in ('Optional', 'Closure', 'Lookahead', 'NegativeLookahead'):
        cases.append((f'{k}(token)', b.box(k, b.tok()), True, False))
    for k in ('Join', 'Gather'):
        cases.append((f'{k}(token % token)', b.join(k, b.tok(), b.tok()), True, False))
    for k in ('EmptyClosure', 'Void', 'Cut', 'Constant', 'Alert'):
        cases.append((k, b.leaf(k), True, False))
    for k in ('Token', 'Dot', 'Fail', 'NameMeta', 'IntMeta'):
        cases.append((k, b.leaf(k), False, False))
    for k in ('Group', 'SkipGroup', 'Named', 'NamedList', 'Override', 'OverrideList', 'Option', 'Rule', 'PositiveClosure', 'SkipTo'):
        extra = {'name': 'n'} if k in ('Named', 'NamedList', 'Rule') else {}
        cases.append((f'{k}(void)', b.box(k, b.void(), **extra), True, False))
        cases.append((f'{k}(token)', b.box(k, b.tok(), **extra), False, False))
    for k in ('PositiveJoin', 'PositiveGather'):
        cases.append((f'{k}(void % token)', b.join(k, b.void(), b.tok()), True, False))
        cases.append((f'{k}(token % token)', b.join(k, b.tok(), b.tok()), False, False))
    cases += [
        ('Sequence(void, void)', b.seq(b.void(), b.void()), True, False),
        ('Sequence(void, token)', b.seq(b.void(), b.tok()), False, False),
        ('Sequence(optional, closure)', b.seq(b.box('Optional', b.tok()), b.box('Closure', b.tok())), True, False),
        ('Sequence()', b.seq(), True, False),
        ('Choice(token | void)', b.choice(b.tok(), b.void()), True, False),
        ('Choice(token | token)', b.choice(b.tok(), b.tok()), False, False),
        ('Pattern(matches empty)', b.pattern(True), True, False),
        ('Pattern(never empty)', b.pattern(False), False, False),
    ]
    # calls: asked through the grammar (outside the quantifier of C16: informational)
    nullable_rule = b.box('Rule', b.void(), name='r')
    strict_rule = b.box('Rule', b.tok(), name='r')
    cases += [
        ('Call(rule matching empty)', b.call('r', {'r': nullable_rule}), True, True),
        ('Call(rule never empty)', b.call('r', {'r': strict_rule}), False, True),
        ('PositiveClosure(Call(rule matching empty))', b.box('PositiveClosure', b.call('r', {'r': nullable_rule})), True, True),
        ('PositiveJoin(Call(rule matching empty) % token)', b.join('PositiveJoin', b.call('r', {'r': nullable_rule}), b.tok()), True, True),
        ('RuleInclude(rule matching empty)', Stub(Q['RuleInclude'], name='r', _exp=b.void()), True, True),
    ]
    # recursive grammars: the question "can this rule match empty" must have an answer (least fixed point: a rule that refers
    # to itself through a positive closure / a call is not nullable because of that reference)
    from ..minieval import Obj as _Obj
    rec_rules: dict = {}
    gref = _Obj(rulemap=rec_rules)

    def rcall(n):
        c = Stub(Q['Call'], name=n)
        c._attrs['grammar'] = gref
        return c
    rec_rules['a'] = b.box('Rule', b.choice(b.seq(b.box('PositiveClosure', rcall('a')), b.tok()), b.seq(b.tok())), name='a')
    rec_rules['m'] = b.box('Rule', b.choice(b.seq(b.box('PositiveClosure', rcall('n')), b.tok()), b.seq(b.tok())), name='m')
    rec_rules['n'] = b.box('Rule', b.seq(b.box('PositiveClosure', rcall('m'))), name='n')
    cases += [
        ("rule a = {a}+ 't' | 't' (self reference under a positive closure)", rec_rules['a'], False, False),
        ("rule m = {n}+ 't' | 't' ; n = {m}+ (mutual reference)", rec_rules['m'], False, False),
    ]
    nsafe = a.p.functions.get('tatsu.peg.leftrec.pegen._is_nullable_safe')
    cases += [
        ('Sequence(Sequence(void, token), void)', b.seq(b.seq(b.void(), b.tok()), b.void()), False, False),
        ('Sequence(Choice(token | void), void)', b.seq(b.choice(b.tok(), b.void()), b.void()), True, False),
        ('Choice(Sequence(void, token) | token)', b.choice(b.seq(b.void(), b.tok()), b.tok()), False, False),
        ('Group(Choice(token | void))', b.box('Group', b.choice(b.tok(), b.void())), True, False),
        # the grammar every parse runs on is the OPTIMIZED one, whose choices hold their alternatives bare (no Option wrapper)
        ('Choice with bare alternatives (optional(token) | token)', Stub(Q['Choice'], options=[b.box('Optional', b.tok()), b.tok()]), True, False),
        ('Choice with bare alternatives (closure(token) | token)', Stub(Q['Choice'], options=[b.box('Closure', b.tok()), b.tok()]), True, False),
        ('Choice with bare alternatives (lookahead(token) | token)', Stub(Q['Choice'], options=[b.box('Lookahead', b.tok()), b.tok()]), True, False),
        ('Choice with bare alternatives (positive closure(token) | token)', Stub(Q['Choice'], options=[b.box('PositiveClosure', b.tok()), b.tok()]), False, False),
        ('Choice with bare alternatives (token | token)', Stub(Q['Choice'], options=[b.tok(), b.tok()]), False, False),
    ]
    for what, node, want, info in cases:
        try:
            got = _nullable(a, node)
        except Unsupported as e:
            if 'depth exceeded' in str(e):
                m_ = a.ct.lookup(Q['Call'], 'is_nullable')
                rep.add({'node': what, 'is_nullable': 'does not terminate', 'table': want})
                rep.fail(m_.qualname if m_ else node._cls, f'nullable-diverges:{what[:20]}', f'is_nullable() of {what} recurses without bound (the '
                         f'question follows the call back into the rule being asked): tatsu.compile() of such a grammar raises '
                         f'RecursionError instead of returning a model or a grammar error', m_.loc if m_ else '')
                continue
            raise AnalysisError(f'cannot interpret is_nullable of {what}: {e}') from e
        # the analysis asks through its own helper (which looks into sequences and choices itself): same table, calls excepted
        safe = None
        if nsafe is not None and not info and 'Call' not in what and 'rule ' not in what:
            try:
                safe = bool(ModelInterp(a).call_fn(nsafe, [node]))
            except Unsupported as e:
                raise AnalysisError(f'cannot interpret _is_nullable_safe on {what}: {e}') from e
            if safe != want:
                rep.fail(nsafe.qualname, f'nullable-safe:{what}', f'pegen._is_nullable_safe({what}) = {safe}, the parse primitives make it {want}: the left-call '
                         f'extraction {"stops before" if want else "looks past"} such an element', nsafe.loc)
        rep.add({'node': what, 'is_nullable': got, '_is_nullable_safe': safe, 'table': want, 'informational': info})
        if got != want:
            cq = node._cls
            f = Finding(rep.rule, cq, f'nullable:{what}', f'{what}.is_nullable() = {got}, the parse primitives make it {want}: the '
                        f'left-recursion analysis {"misses calls behind it" if want else "sees calls that are never at the same position"}',
                        a.p.classes[cq].loc, [], info_only=info)
            rep.findings.append(f)
    return rep


def left_calls(a: Analysis, exp: Stub, index: dict[str, int]) -> list[int]:
    it = ModelInterp(a)
    fn = a.p.func('tatsu.peg.leftrec.pegen._callable_rule_ids')
    return list(it.call_fn(fn, [exp, index]))


def rule_left_call_table(a: Analysis, rule_id: str, thorough: bool = False) -> RuleReport:
    rep = RuleReport(
        rule_id,
        'left-call table: pegen._callable_rule_ids (with _is_nullable_safe), interpreted on stand-in expression trees, returns '
        'exactly the rules that can be called at the position where the expression starts: calls preceded only by elements '
        'able to match empty (optional, closure, lookaheads, void, cut, constants, empty-matching patterns, nullable groups), '
        'through groups/named/options, and nothing behind a token, a positive closure of a token or another rule call; a hand-written '
        'table plus every expression term of depth <= 2 over token / call a / call b, the five wrappers and binary sequence / choice '
        '(quick: every 7th term) against an oracle computed by the checker',
        floor=20,
    )
    b = B(a)
    idx = {'a': 0, 'b': 1}
    A, Bc = (lambda: b.call('a')), (lambda: b.call('b'))
    T = b.tok
    cases = [
        ('a', b.seq(A()), [0]),
        ("'t' a", b.seq(T(), A()), []),
        ("['t'] a", b.seq(b.box('Optional', T()), A()), [0]),
        ("{'t'} a", b.seq(b.box('Closure', T()), A()), [0]),
        ("{'t'}+ a", b.seq(b.box('PositiveClosure', T()), A()), []),
        ("&'t' a", b.seq(b.box('Lookahead', T()), A()), [0]),
        ("!'t' a", b.seq(b.box('NegativeLookahead', T()), A()), [0]),
        ("'t' | a", b.choice(b.seq(T()), b.seq(A())), [0]),
        ('~ a', b.seq(b.leaf('Cut'), A()), [0]),
        ("(['t']) a", b.seq(b.box('Group', b.seq(b.box('Optional', T()))), A()), [0]),
        ("('t') a", b.seq(b.box('Group', b.seq(T())), A()), []),
        ('b a', b.seq(Bc(), A()), [1]),
        ('[a]', b.box('Optional', A()), [0]),
        ('n=a', b.box('Named', A(), name='n'), [0]),
        ('() a', b.seq(b.void(), A()), [0]),
        ('{} a', b.seq(b.leaf('EmptyClosure'), A()), [0]),
        ('`c` a', b.seq(b.leaf('Constant'), A()), [0]),
        ('/x*/ a', b.seq(b.pattern(True), A()), [0]),
        ('/x/ a', b.seq(b.pattern(False), A()), []),
        ("'t'%{'t'} a", b.seq(b.join('Join', T(), T()), A()), [0]),
        ("'t'%{'t'}+ a", b.seq(b.join('PositiveJoin', T(), T()), A()), []),
        ("['t'] {'t'} a | b", b.choice(b.seq(b.box('Optional', T()), b.box('Closure', T()), A()), b.seq(Bc())), [0, 1]),
        ("x=['t'] a", b.seq(b.box('Named', b.box('Optional', T()), name='x'), A()), [0]),
        ("{a}", b.box('Closure', A()), [0]),
        (">inc   with inc = a 't'   (a rule include is its rule's body)", Stub(Q['RuleInclude'], name='inc', _exp=b.seq(A(), T())), [0]),
        (">inc b   with inc = ['t']", b.seq(Stub(Q['RuleInclude'], name='inc', _exp=b.seq(b.box('Optional', T()))), Bc()), [1]),
        (">inc b   with inc = 't'", b.seq(Stub(Q['RuleInclude'], name='inc', _exp=b.seq(T())), Bc()), []),
    ]
    fn = a.p.func('tatsu.peg.leftrec.pegen._callable_rule_ids')
    # every expression term of depth <= 2 over {token, call a, call b} x {optional, closure, positive closure, group, lookahead}
    # x {sequence of 2, choice of 2}, against an oracle written from the property (calls are not "able to match empty":
    # the property excludes nullable rule calls in a prefix)
    atoms = [('t',), ('a',), ('b',)]
    unary = ['Optional', 'Closure', 'PositiveClosure', 'Group', 'Lookahead']
    lvl1 = atoms + [(u, x) for u in unary for x in atoms] + [(k, x, y) for k in ('seq', 'alt') for x in atoms for y in atoms]
    lvl2 = [(u, x) for u in unary for x in lvl1 if len(x) > 1] + [(k, x, y) for k in ('seq', 'alt') for x in lvl1 for y in lvl1
                                                                  if len(x) > 1 or len(y) > 1]

    strict_rules = {n: b.box('Rule', T(), name=n) for n in ('a', 'b')}

    def t_null(t) -> bool:
        k = t[0]
        if k in ('t', 'a', 'b'):
            return False
        if k in ('Optional', 'Closure', 'Lookahead'):
            return True
        if k in ('PositiveClosure', 'Group'):
            return t_null(t[1])
        if k == 'seq':
            return t_null(t[1]) and t_null(t[2])
        return t_null(t[1]) or t_null(t[2])

    def t_first(t) -> set:
        k = t[0]
        if k == 't':
            return set()
        if k in ('a', 'b'):
            return {idx[k]}
        if k in unary:
            return t_first(t[1])
        if k == 'seq':
            return t_first(t[1]) | (t_first(t[2]) if t_null(t[1]) else set())
        return t_first(t[1]) | t_first(t[2])

    def t_build(t):
        k = t[0]
        if k == 't':
            return T()
        if k in ('a', 'b'):
            return b.call(k, strict_rules)  # the called rules never match empty (the property's quantifier)
        if k in unary:
            inner = t_build(t[1])
            return b.box(k, b.seq(inner) if k == 'Group' and t[1][0] not in ('seq', 'alt') else inner)
        if k == 'seq':
            return b.seq(t_build(t[1]), t_build(t[2]))
        return b.choice(t_build(t[1]) if t[1][0] == 'seq' else b.seq(t_build(t[1])), t_build(t[2]) if t[2][0] == 'seq' else b.seq(t_build(t[2])))

    def t_text(t) -> str:
        k = t[0]
        if k == 't':
            return "'t'"
        if k in ('a', 'b'):
            return k
        if k in unary:
            x = t_text(t[1])
            return {'Optional': f'[{x}]', 'Closure': f'{{{x}}}', 'PositiveClosure': f'{{{x}}}+', 'Group': f'({x})', 'Lookahead': f'&({x})'}[k]
        return f'{t_text(t[1])} {t_text(t[2])}' if k == 'seq' else f'({t_text(t[1])} | {t_text(t[2])})'

    if thorough:
        terms = lvl2
    else:
        terms = lvl2[::7]  # quick: every 7th term of the enumeration (the thorough tier takes all)
    cases = cases + [(t_text(t), t_build(t), sorted(t_first(t))) for t in terms]
    for what, exp, want in cases:
        try:
            got = left_calls(a, exp, idx)
        except Unsupported as e:
            raise AnalysisError(f'cannot interpret _callable_rule_ids on `{what}`: {e}') from e
        rep.add({'expression': what, 'left_calls': got, 'table': want})
        if sorted(set(got)) != sorted(set(want)):
            names = {0: 'a', 1: 'b'}
            rep.fail(fn.qualname, f'left-calls:{what}',
                     f'for `{what}` the analysis finds the left calls {[names[i] for i in got]}, the rules callable at the start '
                     f'position are {[names[i] for i in want]}: '
                     + ('a left-recursive rule of this shape is not detected (no seed growing, no GrammarError with left recursion off)'
                        if set(want) - set(got) else 'a rule is treated as left recursive although the call is not at the same position'),
                     fn.loc)
    return rep


# --------------------------------------------------------------------------- all small rule graphs
import itertools

from ..modelinterp import ModelInterp as _MI


def _simple_cycles(names, edges):
    cycles = set()

    def dfs(start, node, path):
        for (u, v) in edges:
            if u != node:
                continue
            if v == start:
                cycles.add(tuple(path))
            elif v not in path and v > start:
                dfs(start, v, path + [v])

    for s in names:
        dfs(s, s, [s])
    return [list(c) for c in cycles]


def _sccs(names, edges):
    reach = {n: {n} for n in names}
    changed = True
    while changed:
        changed = False
        for (u, v) in edges:
            for n in names:
                if u in reach[n] and v not in reach[n]:
                    reach[n].add(v)
                    changed = True
    comps = []
    seen = set()
    for n in names:
        if n in seen:
            continue
        comp = {m for m in names if m in reach[n] and n in reach[m]}
        seen |= comp
        comps.append(comp)
    return comps


def rule_all_small_graphs(a: Analysis, rule_id: str, tier: str) -> RuleReport:
    rep = RuleReport(
        rule_id,
        'left-recursion marking over ALL rule graphs with up to 3 rules (every subset of the 9 possible left-call edges, 512 '
        'graphs, exhaustive): mark_left_recursion with its SCC/cycle helpers is interpreted on stand-in rules whose bodies are '
        'choices of `call token` sequences; required: (1) some rule is marked iff the graph has a cycle (so the grammar error '
        'with left recursion off is exact); (2) a rule on no cycle stays is_lrec=False, is_memo=True; (3) every cycle contains a '
        'marked rule (only marked rules get the runtime guard: an unmarked cycle recurses without bound); (4) no rule on a cycle stays memoized',
        floor=512,
    )
    b = B(a)
    names = ('a', 'b', 'c')
    all_edges = [(u, v) for u in names for v in names]
    fn = a.p.func('tatsu.peg.leftrec.pegen.mark_left_recursion')
    bad_known: list[str] = []
    two = [i for i, (u, v) in enumerate(all_edges) if 'c' not in (u, v)]
    masks = list(range(1 << len(all_edges)))
    if tier != 'thorough':
        # quick: every graph over two rules (16) plus every 8th graph over three rules; thorough: all 512
        small = {sum(1 << i for j, i in enumerate(two) if sub >> j & 1) for sub in range(1 << len(two))}
        sparse = {m_ for m_ in range(1 << len(all_edges)) if bin(m_).count('1') <= 3}  # every graph with at most three edges (all simple cycles)
        masks = sorted(small | sparse | set(range(0, 1 << len(all_edges), 8)))
        rep.floor = len(masks)
        rep.text += ' [quick tier: all 16 two-rule graphs, all graphs with at most 3 edges and every 8th three-rule graph; the thorough tier enumerates all 512]'
    plan = [(names, all_edges, masks, bad_known)]
    bad4: list[str] = []
    if tier == 'thorough':
        names4 = ('a', 'b', 'c', 'd')
        edges4 = [(u, v) for u in names4 for v in names4]
        plan.append((names4, edges4, list(range(5, 1 << len(edges4), 16)), bad4))
        rep.text += ' [thorough tier: plus every 16th of the 65 536 graphs over four rules]'
    for names, all_edges, masks_, bad_list in plan:
      for mask in masks_:
        edges = {e for i, e in enumerate(all_edges) if mask >> i & 1}
        rules = []
        for n in names:
            opts = [b.seq(b.call(t), b.tok()) for t in names if (n, t) in edges] + [b.seq(b.tok())]
            rules.append(Stub(Q['Rule'], name=n, exp=b.choice(*opts), no_memo=False, is_lrec=True, is_memo=False))
        it = _MI(a)
        try:
            res = it.call_fn(fn, [rules])
        except Unsupported as e:
            raise AnalysisError(f'cannot interpret mark_left_recursion on graph {sorted(edges)}: {e}') from e
        except Raised as e:
            gtxt = ' '.join(f'{u}->{v}' for u, v in sorted(edges)) or '(no edges)'
            rep.add({'graph': gtxt, 'raises': e.cls_name})
            rep.fail(fn.qualname, f'raises:{e.cls_name}', f'graph [{gtxt}]: mark_left_recursion raises {e.cls_name} (line {getattr(e.node, "lineno", "?")}): '
                     f'compiling this grammar fails with a foreign exception', fn.loc)
            continue
        marked = {r._attrs['name'] for r in rules if r._attrs['is_lrec']}
        memo = {r._attrs['name'] for r in rules if r._attrs['is_memo']}
        returned = {r._attrs['name'] for r in res}
        cycles = _simple_cycles(names, edges)
        on_cycle = set().union(*map(set, cycles)) if cycles else set()
        gtxt = ' '.join(f'{u}->{v}' for u, v in sorted(edges)) or '(no edges)'
        problems = []
        if bool(returned) != bool(cycles) or returned != marked:
            problems.append(('detect', f'graph [{gtxt}]: returned rules {sorted(returned)}, marked {sorted(marked)}, cycles {cycles}: the grammar '
                                       f'error with left recursion off would be {"missed" if cycles else "spurious"}'))
        for n in names:
            if n not in on_cycle and (n in marked or n not in memo):
                problems.append(('offcycle', f'graph [{gtxt}]: rule {n} lies on no cycle but is_lrec={n in marked} is_memo={n in memo}'))
        for n in sorted(on_cycle):
            if n in memo:
                problems.append(('memo-on-cycle', f'graph [{gtxt}]: rule {n} lies on a cycle but stays memoized: while the seed of the cycle grows, its first '
                                                  f'result is replayed from the memo and the recursion stops advancing'))
        unguarded = [c for c in cycles if not (set(c) & marked)]
        if unguarded:
            # is there a better choice?  a rule common to all cycles of each affected component
            comps = _sccs(names, edges)
            excusable = True
            for c in unguarded:
                comp = next(k for k in comps if c[0] in k)
                ccycles = [x for x in cycles if set(x) <= comp]
                common = set(comp).intersection(*map(set, ccycles))
                if common:
                    excusable = False
            if excusable:
                bad_list.append(gtxt)
            else:
                problems.append(('leader', f'graph [{gtxt}]: cycle(s) {unguarded} contain no marked rule (marked: {sorted(marked)}) although '
                                           f'their component has a rule that lies on all of its cycles: the wrong leader was chosen, the '
                                           f'unmarked cycle recurses without bound'))
        rep.add({'graph': gtxt, 'marked': sorted(marked), 'memoized': sorted(memo), 'cycles': len(cycles), 'ok': not problems and not unguarded})
        for kind, msg in problems[:1]:
            rep.fail(fn.qualname, f'{kind}:{gtxt}', msg, fn.loc)
    if bad_known:
        rep.fail(fn.qualname, 'no-common-leader',
                 f'{len(bad_known)} of the {len(masks)} graphs have a component whose cycles share no rule (e.g. [{bad_known[0]}]): '
                 f'mark_left_recursion marks a single leader per component, so one of the cycles has no marked rule and no runtime '
                 f'guard - parsing recurses without bound (RecursionError)', fn.loc)
    rep.notes.append(f'graphs with a component whose cycles share no rule: {len(bad_known)} (three rules)' + (f', {len(bad4)} of the sampled four-rule graphs' if tier == 'thorough' else ''))
    return rep
