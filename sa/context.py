"""Analysis context shared by all rules: project, class table, resolver, raise summaries."""
from __future__ import annotations

from functools import cached_property

from .calls import Resolver
from .classes import ClassTable
from .loader import Project
from .paths import RaiseSummary


class Analysis:
    def __init__(self, root=None):
        self.p = Project(root)

    @cached_property
    def ct(self) -> ClassTable:
        return ClassTable(self.p)

    @cached_property
    def resolver(self) -> Resolver:
        return Resolver(self.p, self.ct)

    @cached_property
    def raises(self) -> RaiseSummary:
        return RaiseSummary(self.p, self.ct, self.resolver)

    @cached_property
    def callgraph(self):
        from .callgraph import CallGraph
        return CallGraph(self)

    @cached_property
    def extents(self):
        from .paths import _shared_extents
        return _shared_extents(self.p)

    def stats(self) -> dict:
        return {
            'modules': len(self.p.modules),
            'functions': len(self.p.functions),
            'classes': len(self.p.classes),
            'source_digest': self.p.digest(),
            'root': str(self.p.root),
        }
