#!/bin/sh
# Runs the repository's pinned baseline suite (guard variable unset) and compares with BASELINE.json stable_pass.
# usage: ./run_baseline.sh [junit-out]
OUT=${1:-$(mktemp -u /tmp/baseline.XXXXXX.xml)}
unset NEOGENY_TATSU_VERIF
cd /repo && /venv/bin/python -m pytest -ra -q -p no:cacheprovider --timeout=900 --continue-on-collection-errors --junitxml="$OUT" >/dev/null 2>&1
/venv/bin/python - "$OUT" <<'PY'
import json, sys, xml.etree.ElementTree as ET
base = json.load(open('/root/.vp/BASELINE.json'))
want = set(base['stable_pass'])
passed = set()
for tc in ET.parse(sys.argv[1]).getroot().iter('testcase'):
    if not any(c.tag in ('failure', 'error', 'skipped') for c in tc):
        passed.add(f"{tc.get('classname')}::{tc.get('name')}")
missing = sorted(want - passed)
print(f'baseline stable_pass={len(want)} passed_now={len(passed)} missing={len(missing)}')
for m in missing[:40]:
    print('  MISSING', m)
sys.exit(1 if missing else 0)
PY
rc=$?
rm -f "$OUT"
exit $rc
