#!/venv/bin/python
"""Run every check against behaviour-preserving refactorings of /repo (twins/*.diff).
Each must stay silent: any VIOLATION or ANALYSIS-ERROR here is a false alarm of the machinery.
usage: tools/twintest.py [names...]"""
import concurrent.futures as cf
import os
import pathlib
import shutil
import subprocess
import sys
import tempfile

V = pathlib.Path(__file__).resolve().parent.parent
PROPS = [f'C{i:02d}' for i in range(1, 21)]


def run(name):
    patch = V / 'twins' / f'{name}.diff'
    t = pathlib.Path(tempfile.mkdtemp(prefix='twin.'))
    out = []
    try:
        for d in ('tatsu', 'docs', 'grammar'):
            if (pathlib.Path('/repo') / d).exists():
                shutil.copytree(f'/repo/{d}', t / d)
        r = subprocess.run(['patch', '-p1', '-s', '--no-backup-if-mismatch', '-i', str(patch)], cwd=t, capture_output=True, text=True)
        if r.returncode:
            return name, [f'PATCH FAILED {r.stdout[-300:]}']
        env = dict(os.environ, VERIF_REPO=str(t), VERIF_EVIDENCE_DIR=str(t / 'evidence'))
        for c in PROPS:
            r = subprocess.run([str(V / 'vcheck'), c], env=env, capture_output=True, text=True)
            bad = [ln for ln in r.stdout.splitlines() if ln.startswith(('FAIL', 'ANALYSIS-ERROR'))]
            if r.returncode:
                out.append(f'{c} exit={r.returncode}')
                out += ['    ' + b[:600] for b in bad[:6]]
    finally:
        shutil.rmtree(t, ignore_errors=True)
    return name, out


def main():
    names = sys.argv[1:] or sorted(p.stem for p in (V / 'twins').glob('*.diff'))
    bad = 0
    with cf.ThreadPoolExecutor(8) as ex:
        for name, out in ex.map(run, names):
            print(f'{name:10s} {"SILENT" if not out else "ALARM"}')
            for o in out:
                print('   ', o)
            bad += bool(out)
    print(f'{len(names) - bad}/{len(names)} refactorings silent')
    return 1 if bad else 0


sys.exit(main())
