import sys
wt, files = sys.argv[1], sys.argv[2]
print(f"""You are helping to evaluate a static-analysis tool for false alarms. The project is neogeny/TatSu (a PEG parser generator in pure Python).

Your own scratch git worktree of the repository is at {wt} . Work ONLY inside that directory (never touch /repo or /verif, do not read anything under /verif). Python is /venv/bin/python (3.12); run things with `cd {wt} && PYTHONPATH={wt} /venv/bin/python ...`. Never use `git stash` (it is shared with sibling worktrees).

TASK: produce a BEHAVIOUR-PRESERVING refactoring of the following files: {files}

Make 12 to 20 separate refactorings spread over those files, and this time prefer the STRUCTURAL kinds (an earlier round already covered cosmetic ones):
 - alias an attribute chain that a function uses several times into a local (`state = self.state` ... `state.cutseen = True`; `cfg = self.config`; `cur = self.cursor`) - only where nothing rebinds that attribute in between;
 - rename parameters of PRIVATE helpers and nested functions, rename locals, rename private methods/functions (update all uses);
 - move a block of a method into a new private method or module-level function, or inline a small private helper into its only caller;
 - replace a `with contextmanager():` use by the equivalent explicit calls where the repo has both forms, or wrap a try/finally in `contextlib.ExitStack`/a small local context manager, only if exactly equivalent;
 - replace `if not cond: return` guards by a positive nested block or the reverse; merge nested `with` statements into one `with a, b:` or split them;
 - turn a loop with `break`/`else` into a helper with early `return`; turn `while True:` + `break` into a loop with a condition where equivalent;
 - replace a dict/set/list literal table by a module-level constant (tuple/frozenset/MappingProxyType), or a chain of `or` comparisons by `in (..)`;
 - replace a property by a plain attribute set in `__init__` or the reverse ONLY if provably equivalent (usually it is not - skip if unsure);
 - reorder methods inside a class, reorder independent statements, reorder `except` clauses that are disjoint;
 - change `x = x or y` into explicit ifs, `a if c else b` into if/else, comprehension <-> loop, `match` <-> isinstance chain, f-string <-> format;
 - add a small dataclass/NamedTuple for a tuple that is passed around, only inside one module.
Prefer the functions that do the real work. Do NOT change behaviour in any way: same results, same exceptions (type and message), same side effects and their order, same public names and signatures.

Verify: (1) `cd {wt} && /venv/bin/python -c "import tatsu"`; (2) run `/tmp/seedtools/check_baseline.sh {wt}` (about 2 minutes; must report missing=0) and compare the count it prints as passed_now with 593 - it must not drop; (3) write a small differential script that runs old code (from `git archive HEAD tatsu | tar -x -C /tmp/old_<name>`) and new code on a few dozen inputs exercising the functions you touched and compare results/exceptions; (4) re-read your diff and convince yourself each hunk preserves behaviour on every path, including exceptional ones. Remove any scratch directories you created under /tmp.

Write the final diff with `cd {wt} && git diff -- tatsu > {wt}/patch.diff`. Final answer: the path of patch.diff and a numbered list of the refactorings (file, function, what kind). Leave the worktree with the change applied.""")
