import sys
wt, files = sys.argv[1], sys.argv[2]
print(f"""You are helping to evaluate a static-analysis tool for false alarms. The project is neogeny/TatSu (a PEG parser generator in pure Python).

Your own scratch git worktree of the repository is at {wt} . Work ONLY inside that directory (never touch /repo or /verif, do not read anything under /verif). Python is /venv/bin/python (3.12); run things with `cd {wt} && PYTHONPATH={wt} /venv/bin/python ...`. Never use `git stash` (it is shared with sibling worktrees).

TASK: produce a BEHAVIOUR-PRESERVING refactoring - the kind of clean-up a maintainer does on an ordinary day - of the following files: {files}

Make 10 to 16 separate small refactorings spread over those files, for example: rename local variables or private helpers; extract a few lines into a helper method/function (or inline a trivial helper); turn an if/elif chain into `match` or the reverse; use early returns / invert a condition and swap the branches; replace a `with` block by try/finally or the reverse where equivalent; turn a comprehension into a loop or the reverse; reorder statements that are independent; hoist a repeated expression into a local; change `x = a or b` style code into an explicit if; split or merge conditions (`if a and b` <-> nested ifs); replace a chain of `+` by an f-string; move a constant to module level; add or adjust type annotations; reformat. Prefer the functions that do the real work (not docstrings or comments only). Do NOT change behaviour in any way: same results, same exceptions, same side effects, same order of effects, same public names and signatures.

Verify: (1) `cd {wt} && /venv/bin/python -c "import tatsu"`; (2) the whole test suite behaves as before: run `/tmp/seedtools/check_baseline.sh {wt}` (about 2 minutes; must report missing=0) and ALSO compare the count it prints as passed_now with 593 (the count before your change) - it must not drop; (3) re-read your diff once more and convince yourself each hunk preserves behaviour on every path, including exceptional ones.

Write the final diff with `cd {wt} && git diff -- tatsu > {wt}/patch.diff`. Final answer: the path of patch.diff and a numbered list of the refactorings (file, function, what kind). Leave the worktree with the change applied.""")
