#!/bin/sh
# usage: check_baseline.sh <worktree-dir>
# Runs the pinned test suite inside <worktree-dir> and checks that all 470 baseline tests still pass.
D=${1:?worktree dir}
OUT=$(mktemp -u /tmp/baseline.XXXXXX.xml)
cd "$D" && PYTHONPATH="$D" /venv/bin/python -m pytest -q -p no:cacheprovider --timeout=900 --continue-on-collection-errors --junitxml="$OUT" >/dev/null 2>&1
/venv/bin/python - "$OUT" <<'PY'
import json, sys, xml.etree.ElementTree as ET
base = json.load(open('/root/.vp/BASELINE.json'))
want = set(base['stable_pass'])
passed = set()
for tc in ET.parse(sys.argv[1]).getroot().iter('testcase'):
    if not any(c.tag in ('failure', 'error', 'skipped') for c in tc):
        passed.add(f"{tc.get('classname')}::{tc.get('name')}")
missing = sorted(want - passed)
print(f'baseline stable_pass={len(want)} passed_now={len(passed)} missing={len(missing)}')
for m in missing[:40]:
    print('  BASELINE TEST NO LONGER PASSES:', m)
sys.exit(1 if missing else 0)
PY
rc=$?
rm -f "$OUT"
exit $rc
