import json, sys
pid, wt = sys.argv[1], sys.argv[2]
variant = sys.argv[3] if len(sys.argv) > 3 else ''
for l in open('/verif/properties.jsonl'):
    p = json.loads(l)
    if p['id'] == pid:
        break
print(f"""You are helping to evaluate a verification tool by writing a *seeded defect* for the open-source project neogeny/TatSu (a PEG parser generator in pure Python).

Your own scratch git worktree of the repository is at {wt} . Work ONLY inside that directory (never touch /repo or /verif, do not read anything under /verif). Python is /venv/bin/python (3.12). To make `import tatsu` resolve to your worktree always run with `cd {wt} && PYTHONPATH={wt} /venv/bin/python ...`.

Here is a semantic property of TatSu that should always hold (JSON record):

{json.dumps(p, indent=1)}

TASK: produce a small, realistic change to the TatSu source (files under {wt}/tatsu/ only, not tests) that BREAKS this property, while
 (a) the code still compiles/imports, and
 (b) all 470 baseline tests of the existing suite still pass. Check with:  /tmp/seedtools/check_baseline.sh {wt}   (takes ~2 minutes; it prints which baseline tests stopped passing and exits non-zero if any did). Do not edit the tests.
The change should look like something a developer could plausibly write (a refactoring slip, a wrong condition, an off-by-one, a dropped call, a reordered statement, a too-broad handler, an optimisation that forgets a case ...) - not sabotage with an obvious marker. Prefer a change that needs something SPECIFIC to manifest (an unusual input or grammar shape, a multi-step sequence of operations, a particular configuration combination, a failure at a particular point, or two cooperating sites that each look fine alone) rather than one that ordinary use would expose at once. {variant}

Also write a demonstration: a small standalone Python program {wt}/demo_{pid}.py that exits 0 (prints PASS) on the ORIGINAL code and exits 1 (prints FAIL and what went wrong) on your changed code. The demo must test the behaviour stated in the property (through TatSu's public API where possible), not the presence of your edit. Note: in grammars at this commit, separate rules by a blank line.

Steps: 1. read the relevant code; 2. first write the demo and confirm it passes on the unmodified worktree (NEVER use `git stash` - the stash is shared with other worktrees; to compare with the original save your change with `git diff -- tatsu > {wt}/mychange.diff`, run `git checkout -- tatsu`, and re-apply with `git apply {wt}/mychange.diff`); 3. make the change; 4. confirm the demo now fails; 5. run /tmp/seedtools/check_baseline.sh and make sure it reports missing=0 - if baseline tests break, pick a different change; 6. write the final diff with `cd {wt} && git diff -- tatsu > {wt}/patch.diff`.

Final answer (plain text): the path of patch.diff and of the demo, a 3-5 line description of the change, which clause of the property it breaks, and exactly what is needed for it to manifest. Leave the worktree with your change applied.""")
