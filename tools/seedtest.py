#!/venv/bin/python
"""Run the checks against every seeded change (scratch copy of /repo, never /repo itself).

usage: tools/seedtest.py [seed-name ...] [--props C01,C05] [--all-props]
For each seed: copy /repo/{tatsu,docs} to a temp dir, apply seeded/<name>/patch.diff there, run ./vcheck for the
seed's property (meta.json "property") or the given ones with VERIF_REPO pointing at the copy, report which rules fired.
"""
import json
import os
import shutil
import subprocess
import sys
import tempfile
from concurrent.futures import ThreadPoolExecutor
from pathlib import Path

VERIF = Path(__file__).resolve().parent.parent
REPO = Path('/repo')


def implemented():
    return sorted(p.stem.upper() for p in (VERIF / 'sa' / 'props').glob('c[0-9][0-9].py'))


def run_seed(name: str, props: list[str] | None):
    d = VERIF / 'seeded' / name
    meta = json.loads((d / 'meta.json').read_text()) if (d / 'meta.json').exists() else {}
    props = props or [meta.get('property', name.split('-')[0])]
    tmp = Path(tempfile.mkdtemp(prefix='seedtest_'))
    try:
        shutil.copytree(REPO / 'tatsu', tmp / 'tatsu', ignore=shutil.ignore_patterns('__pycache__'))
        shutil.copytree(REPO / 'docs', tmp / 'docs')
        r = subprocess.run(['patch', '-p1', '-s', '--no-backup-if-mismatch', '-i', str(d / 'patch.diff')], cwd=tmp, capture_output=True, text=True)
        if r.returncode != 0:
            return name, {'error': f'patch failed: {r.stdout} {r.stderr}'[:300]}
        out = {}
        for p in props:
            env = dict(os.environ, VERIF_REPO=str(tmp), VERIF_EVIDENCE_DIR=str(tmp / 'evidence'))
            r = subprocess.run([str(VERIF / 'vcheck'), p], cwd=VERIF, env=env, capture_output=True, text=True)
            rules = sorted({l.split('[')[1].split(']')[0] for l in r.stdout.splitlines() if l.startswith('  ') and '[' in l})
            errs = [l for l in r.stdout.splitlines() if l.startswith('ANALYSIS-ERROR')]
            out[p] = {'exit': r.returncode, 'rules': rules, 'errors': errs[:3]}
        return name, out
    finally:
        shutil.rmtree(tmp, ignore_errors=True)


def main():
    args = sys.argv[1:]
    props = None
    if '--all-props' in args:
        args.remove('--all-props')
        props = implemented()
    for a in list(args):
        if a.startswith('--props'):
            args.remove(a)
            props = a.split('=', 1)[1].split(',')
    names = args or sorted(p.name for p in (VERIF / 'seeded').iterdir() if (p / 'patch.diff').exists())
    with ThreadPoolExecutor(8) as ex:
        results = list(ex.map(lambda n: run_seed(n, props), names))
    caught = 0
    for name, out in results:
        if 'error' in out:
            print(f'{name:10s} ERROR {out["error"]}')
            continue
        det = [f'{p}:{",".join(v["rules"])}' for p, v in out.items() if v['exit'] == 1]
        err = [f'{p}:exit{v["exit"]} {v["errors"]}' for p, v in out.items() if v['exit'] not in (0, 1)]
        if det:
            caught += 1
        print(f'{name:10s} {"CAUGHT " + " ".join(det) if det else "missed"} {" ".join(err)}')
    print(f'{caught}/{len(results)} seeded changes detected')


if __name__ == '__main__':
    main()
