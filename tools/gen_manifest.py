#!/venv/bin/python
"""Regenerate MANIFEST.json from the per-property modules (sa/props/cNN.py)."""
import importlib
import json
import sys
from pathlib import Path

VERIF = Path(__file__).resolve().parent.parent
sys.path.insert(0, str(VERIF))

checks = []
not_applicable = []
for n in range(1, 21):
    pid = f'C{n:02d}'
    try:
        mod = importlib.import_module(f'sa.props.{pid.lower()}')
    except ModuleNotFoundError:
        not_applicable.append({'property_id': pid, 'reason': 'no static check built yet for this property (see DESIGN.md section 3 for the planned clauses)'})
        continue
    if getattr(mod, 'NOT_APPLICABLE', None):
        not_applicable.append({'property_id': pid, 'reason': mod.NOT_APPLICABLE})
        continue
    checks.append({
        'property_id': pid,
        'quick_cmd': f'./vcheck {pid} --tier quick',
        'thorough_cmd': f'./vcheck {pid} --tier thorough',
        'evidence_file': f'evidence/{pid}.json',
        'replay_cmd_template': './vcheck explain {path}',
        'engine': 'sa',
        'level_claimed': {
            'category': mod.LEVEL,
            'text': mod.LEVEL_TEXT,
            'design_ref': f'DESIGN.md section 3, {pid}',
        },
        'level_note': mod.LEVEL_NOTE,
        'technique': mod.TECHNIQUE,
    })

manifest = {
    'version': 1,
    'setup_cmd': 'true',
    'hooks': {
        'guard': 'NEOGENY_TATSU_VERIF',
        'enable': 'none: static analysis reads /repo sources, TatSu is never imported or instrumented',
        'baseline_off_cmd': './run_baseline.sh',
        'source_commits': [],
        'add_only': True,
    },
    'engines': [{
        'name': 'sa',
        'path': 'sa/',
        'serves_properties': [c['property_id'] for c in checks],
        'kind_free_text': 'repository-specific static analysis over Python ast: static class table + C3 MRO, '
                          'annotation-driven call resolution, path-state abstract execution with inlined '
                          'context managers and exception-hierarchy handler matching, finite-domain abstract '
                          'interpretation, regex-language (NFA) checks, PEG IR translation validation',
    }],
    'checks': checks,
    'not_applicable': not_applicable,
    'notes': 'All checks are static: they parse /repo (VERIF_REPO overrides the root for self-tests) on every run, '
             'never import TatSu. Exit 0 ok / 1 VIOLATION / 2 ANALYSIS-ERROR (analysis could not run; never a silent pass). '
             'Known findings: known_findings.json. Seeded changes: seeded/.',
}
(VERIF / 'MANIFEST.json').write_text(json.dumps(manifest, indent=1) + '\n')
print(f'{len(checks)} checks, {len(not_applicable)} not applicable')
