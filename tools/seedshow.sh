#!/bin/sh
# usage: tools/seedshow.sh <seed-name> <Cnn>  - print the violation lines check Cnn reports on a scratch copy with the seed applied
T=$(mktemp -d /tmp/seedshow.XXXXXX); cp -r /repo/tatsu /repo/docs "$T"/; (cd "$T" && patch -p1 -s --no-backup-if-mismatch -i /verif/seeded/$1/patch.diff)
VERIF_REPO=$T VERIF_EVIDENCE_DIR=$T/evidence /verif/vcheck $2 | grep -v "^KNOWN\|^VIOLATION" | cut -c1-${3:-700}
rm -rf "$T"
