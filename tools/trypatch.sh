#!/bin/sh
# usage: tools/trypatch.sh [-R] <patch> <Cnn> [<Cnn>...]   - run checks on a scratch copy of /repo with the patch applied
REV=""; if [ "$1" = "-R" ]; then REV="-R"; shift; fi
P=$(realpath "$1"); shift
T=$(mktemp -d /tmp/trypatch.XXXXXX)
cp -r /repo/tatsu "$T/tatsu"; cp -r /repo/docs "$T/docs"
(cd "$T" && patch -p1 -s $REV --no-backup-if-mismatch -i "$P") || { echo "patch failed"; rm -rf "$T"; exit 2; }
cd /verif
for c in "$@"; do VERIF_REPO="$T" VERIF_EVIDENCE_DIR="$T/evidence" ./vcheck "$c" | grep -v "^VIOLATION"; done
rm -rf "$T"
