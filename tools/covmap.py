#!/venv/bin/python
"""Which functions of a property's anchor files did no rule of its check execute or name?  (reads evidence/*.json of the last run)

usage: tools/covmap.py [Cnn ...]      - the list is a work list for the next rules, not a verdict: a function can be irrelevant to the property
"""
import ast
import json
import pathlib
import sys

V = pathlib.Path(__file__).resolve().parent.parent
REPO = pathlib.Path('/repo')


def functions_of(relpath: str) -> list[tuple[str, int]]:
    p = REPO / relpath
    if not p.exists() or p.suffix != '.py':
        return []
    mod = '.'.join(pathlib.Path(relpath).with_suffix('').parts)
    if mod.endswith('.__init__'):
        mod = mod[:-9]
    out = []

    def visit(node, prefix):
        for n in ast.iter_child_nodes(node):
            if isinstance(n, (ast.FunctionDef, ast.AsyncFunctionDef)):
                size = (n.end_lineno or n.lineno) - n.lineno + 1
                out.append((f'{prefix}.{n.name}', size))
                visit(n, f'{prefix}.{n.name}')
            elif isinstance(n, ast.ClassDef):
                visit(n, f'{prefix}.{n.name}')
            elif isinstance(n, (ast.If, ast.Try, ast.With, ast.For, ast.While)):
                visit(n, prefix)
    visit(ast.parse(p.read_text()), mod)
    return out


def main():
    props = {json.loads(l)['id']: json.loads(l) for l in open(V / 'properties.jsonl')}
    want = sys.argv[1:] or sorted(props)
    everything = set()
    for pid in sorted(props):
        cov = json.loads((V / 'evidence' / f'{pid}.json').read_text())['coverage']
        everything |= set(cov.get('functions_executed', ())) | set(cov.get('functions_anchored', ()))
    for pid in want:
        cov = json.loads((V / 'evidence' / f'{pid}.json').read_text())['coverage']
        seen = set(cov.get('functions_executed', ())) | set(cov.get('functions_anchored', ()))
        tot = hit = 0
        print(f'== {pid}: {len(seen)} functions executed or anchored')
        for f in props[pid]['anchors']['files']:
            fs = functions_of(f)
            miss = [(q, n) for q, n in fs if q not in seen]
            tot += len(fs)
            hit += len(fs) - len(miss)
            if fs:
                print(f'  {f}: {len(fs) - len(miss)}/{len(fs)}')
                for q, n in miss:
                    tag = '' if q in everything else '  [no check at all]'
                    if n >= 4:
                        print(f'      - {q.split(".", 2)[-1] if False else q}  ({n} lines){tag}')
        print(f'  total {hit}/{tot}')


main()
