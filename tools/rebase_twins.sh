#!/bin/sh
# usage: tools/rebase_twins.sh [names...]   - re-base twins/*.diff that no longer apply to /repo HEAD (after a fix: commit there).
# For each stale twin: scratch worktree at HEAD, `git apply --3way`; without conflicts the diff is regenerated and the 470-test baseline
# is run on the worktree before the twin is replaced; with conflicts the worktree is kept for a manual merge and its path printed.
cd /verif || exit 2
NAMES=${*:-$(ls twins/*.diff | sed 's#twins/##; s#\.diff##')}
for t in $NAMES; do
  if git -C /repo apply --check "/verif/twins/$t.diff" 2>/dev/null; then continue; fi
  W=/tmp/wt_$t; git -C /repo worktree remove --force "$W" 2>/dev/null; rm -rf "$W"
  git -C /repo worktree add -q --detach "$W" HEAD
  ( cd "$W" && git apply --3way "/verif/twins/$t.diff" >/dev/null 2>&1 )
  U=$(cd "$W" && git diff --name-only --diff-filter=U)
  if [ -n "$U" ]; then echo "$t: CONFLICT in $U  (resolve in $W, then: cd $W && git add -A && git diff --cached HEAD > /verif/twins/$t.diff)"; continue; fi
  ( cd "$W" && git add -A && git diff --cached HEAD > "/tmp/$t.new.diff" )
  R=$(sh /verif/tools/agents/check_baseline.sh "$W" 2>&1 | tail -1)
  case "$R" in *"missing=0"*) cp "/tmp/$t.new.diff" "twins/$t.diff"; echo "$t: rebased ($R)";; *) echo "$t: BASELINE FAILS after rebase: $R (kept $W)"; continue;; esac
  git -C /repo worktree remove --force "$W"
done
git -C /repo worktree prune
