#!/bin/sh
# usage: confirm_seed.sh <worktree> <Cnn> <seed-name>
# Confirms a seeded change in its scratch worktree: demo fails with the change, passes without,
# baseline suite still passes with the change. Then stores it under /verif/seeded/<seed-name>/.
WT=$1; PID=$2; NAME=$3
DEMO=$WT/demo_$PID.py
LOG=/tmp/seedtools/confirm_$NAME.log
{
cd "$WT" || exit 2
git diff -- tatsu > /tmp/seedtools/$NAME.patch
echo "== demo with change"; PYTHONPATH=$WT /venv/bin/python "$DEMO" > /tmp/seedtools/$NAME.with.out 2>&1; W=$?; tail -5 /tmp/seedtools/$NAME.with.out; echo "exit=$W"
git apply -R /tmp/seedtools/$NAME.patch
echo "== demo without change"; PYTHONPATH=$WT /venv/bin/python "$DEMO" > /tmp/seedtools/$NAME.without.out 2>&1; O=$?; tail -3 /tmp/seedtools/$NAME.without.out; echo "exit=$O"
git apply /tmp/seedtools/$NAME.patch
echo "== baseline with change"; /tmp/seedtools/check_baseline.sh "$WT"; B=$?
echo "RESULT demo_with=$W demo_without=$O baseline=$B"
if [ "$W" != 0 ] && [ "$O" = 0 ] && [ "$B" = 0 ]; then
  mkdir -p /verif/seeded/$NAME
  cp /tmp/seedtools/$NAME.patch /verif/seeded/$NAME/patch.diff
  cp "$DEMO" /verif/seeded/$NAME/
  echo CONFIRMED
else
  echo NOT-CONFIRMED
fi
} > "$LOG" 2>&1
tail -3 "$LOG"
