#!/venv/bin/python
"""usage: tools/mutbatch.py BATCH.py   - BATCH.py defines MUTS = [(label, file, old, new), ...]; runs tools/mutate.py on each
and prints one line per mutation: which checks report (or MISSED)."""
import runpy
import subprocess
import sys
import pathlib

V = pathlib.Path(__file__).resolve().parent.parent
muts = runpy.run_path(sys.argv[1])['MUTS']
only = sys.argv[2:]
for label, file, old, new in muts:
    r = subprocess.run([str(V / 'tools/mutate.py'), file, old, new, *only], capture_output=True, text=True, env=dict(__import__('os').environ, MUT_RAW='1'))
    if r.returncode and 'checks report' not in r.stdout:
        print(f'{label:40s} ERROR {r.stderr.strip()[-200:]} {r.stdout[-200:]}')
        continue
    hits = [ln.split()[0] + ('!' if 'exit=2' in ln else '') for ln in r.stdout.splitlines() if ln.startswith('C') and 'exit=' in ln]
    rules = sorted({ln.split('[')[1].split(']')[0] for ln in r.stdout.splitlines() if '[' in ln and ']' in ln and ln.strip().startswith('tatsu')})
    print(f'{label:40s} {"MISSED" if not hits else " ".join(hits)}  {" ".join(rules)}')
