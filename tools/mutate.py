#!/venv/bin/python
"""usage: tools/mutate.py FILE OLD NEW [--nth N] [Cnn ...]
Copy /repo/tatsu (+docs, grammar) to a scratch directory, replace the N-th (default: only) occurrence of OLD by NEW in FILE
(path relative to /repo), run the checks (all 20 by default, in parallel) and print which report something.  The scratch copy is
removed afterwards.  A quick way to ask "would any rule notice this edit?"; it does NOT establish that the edit breaks anything."""
import concurrent.futures as cf
import os
import pathlib
import shutil
import subprocess
import sys
import tempfile

V = pathlib.Path(__file__).resolve().parent.parent
args = sys.argv[1:]
nth = None
if '--nth' in args:
    i = args.index('--nth')
    nth = int(args[i + 1])
    del args[i:i + 2]
file, old, new, *props = args
props = props or [f'C{i:02d}' for i in range(1, 21)]
t = pathlib.Path(tempfile.mkdtemp(prefix='mutate.'))
try:
    for d in ('tatsu', 'docs', 'grammar'):
        if (pathlib.Path('/repo') / d).exists():
            shutil.copytree(f'/repo/{d}', t / d, symlinks=True, ignore=shutil.ignore_patterns('__pycache__'))
    p = t / file
    s = p.read_text(encoding='utf-8')
    if not os.environ.get('MUT_RAW'):
        old = old.encode().decode('unicode_escape') if '\\n' in old else old
        new = new.encode().decode('unicode_escape') if '\\n' in new else new
    n = s.count(old)
    if n == 0 or (n > 1 and nth is None):
        sys.exit(f'OLD occurs {n} times in {file}')
    if nth is None:
        s = s.replace(old, new)
    else:
        parts = s.split(old)
        s = old.join(parts[:nth + 1]) + new + old.join(parts[nth + 1:])
    compile(s, str(p), 'exec') if file.endswith('.py') else None
    p.write_text(s, encoding='utf-8')
    env = dict(os.environ, VERIF_REPO=str(t), VERIF_EVIDENCE_DIR=str(t / '_evidence'))

    def run(c):
        r = subprocess.run([str(V / 'vcheck'), c], env=env, capture_output=True, text=True)
        return c, r.returncode, r.stdout

    hit = 0
    with cf.ThreadPoolExecutor(10) as ex:
        for c, rc, out in ex.map(run, props):
            if rc:
                hit += 1
                print(f'{c} exit={rc}')
                for ln in out.splitlines():
                    if not ln.startswith(('KNOWN-FINDING', 'VIOLATION', 'OK ')):
                        print('   ', ln[:400])
    print(f'{hit}/{len(props)} checks report')
finally:
    shutil.rmtree(t, ignore_errors=True)
