#!/bin/sh
# usage: tools/twinshow.sh <twin> <Cnn>...  - print what the checks report on a scratch copy with the twin applied
T=$(mktemp -d /tmp/twinshow.XXXXXX); cp -r /repo/tatsu /repo/docs "$T"/; (cd "$T" && patch -p1 -s --no-backup-if-mismatch -i /verif/twins/$1.diff) || echo PATCHFAIL
tw=$1; shift
for p in "$@"; do VERIF_REPO=$T VERIF_EVIDENCE_DIR=$T/evidence /verif/vcheck $p | grep -v "^KNOWN\|^VIOLATION" | cut -c1-${W:-600}; done
rm -rf "$T"
