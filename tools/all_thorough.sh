#!/bin/sh
# usage: tools/all_thorough.sh   - every thorough command, 4 at a time; prints exit codes and wall times (evidence goes to a scratch directory)
cd "$(dirname "$0")/.." || exit 2
D=$(mktemp -d /tmp/thorough.XXXXXX)
for i in $(seq -w 1 20); do echo C$i; done | xargs -P 4 -I{} sh -c 'VERIF_EVIDENCE_DIR='$D' ./vcheck {} --tier thorough > '$D'/{}.log 2>&1; echo "{} exit=$? $(grep -o "wall=[0-9.]*s" '$D'/{}.log | tail -1) $(grep -c "^VIOLATION\|^ANALYSIS-ERROR" '$D'/{}.log)"'
rm -rf "$D"
