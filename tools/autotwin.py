#!/venv/bin/python
"""Mechanical behaviour-preserving transformations of the whole tatsu/ package, used to look for brittle rules.

  T1  rename every function-local variable (not parameters, not names shared with nested scopes, not global/nonlocal)
  T2  hoist the test of every plain `if` statement into a fresh local:  `if T:` -> `_tN = T` / `if _tN:`
  T3  alias `self` attribute chains read twice or more in a function is NOT done (not behaviour-preserving in general)

usage: tools/autotwin.py T1|T2|T1T2 [--baseline] [--keep DIR] [Cnn ...]
Writes the transformed copy to a scratch directory, runs the checks against it (all 20 by default) and prints any
check that is not silent.  --baseline also runs the pinned test suite on the transformed copy (slow, ~2 min) to
confirm that the transformation preserved behaviour.
"""
import ast
import builtins
import json
import os
import pathlib
import shutil
import subprocess
import sys
import tempfile

V = pathlib.Path(__file__).resolve().parent.parent
PROPS = [f'C{i:02d}' for i in range(1, 21)]
SKIP_FILES = ('bootstrap.py',)  # generated parser: C15 reads its text


class _Scope(ast.NodeVisitor):
    """names bound in a function body itself (not in nested defs/lambdas/classes)"""

    def __init__(self):
        self.stores: set[str] = set()
        self.nested_names: set[str] = set()
        self.declared: set[str] = set()

    def visit_Name(self, n):
        if isinstance(n.ctx, (ast.Store, ast.Del)):
            self.stores.add(n.id)

    def visit_Global(self, n):
        self.declared.update(n.names)

    visit_Nonlocal = visit_Global

    def _nested(self, n):
        for x in ast.walk(n):
            if isinstance(x, ast.Name):
                self.nested_names.add(x.id)
            elif isinstance(x, ast.arg):
                self.nested_names.add(x.arg)
            elif isinstance(x, (ast.Global, ast.Nonlocal)):
                self.nested_names.update(x.names)
        if isinstance(n, (ast.FunctionDef, ast.AsyncFunctionDef, ast.ClassDef)):
            self.stores.add(n.name)
            self.nested_names.add(n.name)

    visit_FunctionDef = visit_AsyncFunctionDef = visit_ClassDef = visit_Lambda = _nested

    def visit_ExceptHandler(self, n):
        if n.name:
            self.nested_names.add(n.name)  # keep handler names (deleted at handler exit)
        self.generic_visit(n)

    def visit_MatchAs(self, n):
        if n.name:
            self.nested_names.add(n.name)
        self.generic_visit(n)

    visit_MatchStar = visit_MatchAs

    def visit_MatchMapping(self, n):
        if n.rest:
            self.nested_names.add(n.rest)
        self.generic_visit(n)

    def visit_alias(self, n):
        self.nested_names.add((n.asname or n.name).split('.')[0])


class _Rename(ast.NodeTransformer):
    def __init__(self, mapping):
        self.m = mapping

    def visit_Name(self, n):
        if n.id in self.m:
            n.id = self.m[n.id]
        return n

    def _skip(self, n):
        return n  # nested scopes do not mention the renamed names (checked before)

    visit_FunctionDef = visit_AsyncFunctionDef = visit_ClassDef = visit_Lambda = _skip


def rename_locals(tree: ast.Module) -> int:
    count = 0
    for fn in [n for n in ast.walk(tree) if isinstance(n, (ast.FunctionDef, ast.AsyncFunctionDef))]:
        sc = _Scope()
        for s in fn.body:
            sc.visit(s)
        params = {a.arg for a in (*fn.args.posonlyargs, *fn.args.args, *fn.args.kwonlyargs)}
        if fn.args.vararg:
            params.add(fn.args.vararg.arg)
        if fn.args.kwarg:
            params.add(fn.args.kwarg.arg)
        uses_locals = any(isinstance(x, ast.Call) and isinstance(x.func, ast.Name) and x.func.id in ('locals', 'vars', 'eval', 'exec')
                          for x in ast.walk(fn))
        if uses_locals:
            continue
        cands = {n for n in sc.stores if n not in params and n not in sc.nested_names and n not in sc.declared
                 and not (n.startswith('__') and n.endswith('__')) and n != '_'}
        allnames = {x.id for x in ast.walk(fn) if isinstance(x, ast.Name)} | params | set(dir(builtins))
        mapping = {}
        for n in sorted(cands):
            new = f'{n}_v'
            while new in allnames or new in mapping.values():
                new += 'v'
            mapping[n] = new
        if mapping:
            r = _Rename(mapping)
            fn.body = [r.visit(s) for s in fn.body]
            count += len(mapping)
    return count


def hoist_tests(tree: ast.Module) -> int:
    count = [0]

    def chain(s: ast.If) -> None:
        """bodies of an if/elif/else chain; the tests of the elifs stay where they are"""
        s.body = do_block(s.body)
        if len(s.orelse) == 1 and isinstance(s.orelse[0], ast.If):
            chain(s.orelse[0])
        else:
            s.orelse = do_block(s.orelse)

    def do_block(block: list[ast.stmt]) -> list[ast.stmt]:
        out = []
        for s in block:
            if isinstance(s, (ast.FunctionDef, ast.AsyncFunctionDef, ast.ClassDef)):
                out.append(s)  # nested scopes are visited on their own
                continue
            if isinstance(s, ast.If):
                if not isinstance(s.test, (ast.Name, ast.Constant)):
                    count[0] += 1
                    name = f'_t{count[0]}'
                    out.append(ast.copy_location(ast.Assign(targets=[ast.Name(id=name, ctx=ast.Store())], value=s.test, lineno=s.lineno), s))
                    s.test = ast.copy_location(ast.Name(id=name, ctx=ast.Load()), s)
                chain(s)
                out.append(s)
                continue
            for fld in ('body', 'orelse', 'finalbody'):
                b = getattr(s, fld, None)
                if isinstance(b, list) and b and isinstance(b[0], ast.stmt):
                    setattr(s, fld, do_block(b))
            for h in getattr(s, 'handlers', []) or []:
                h.body = do_block(h.body)
            for c in getattr(s, 'cases', []) or []:
                c.body = do_block(c.body)
            out.append(s)
        return out

    for fn in [n for n in ast.walk(tree) if isinstance(n, (ast.FunctionDef, ast.AsyncFunctionDef))]:
        if any(isinstance(x, ast.Call) and isinstance(x.func, ast.Name) and x.func.id in ('locals', 'vars') for x in ast.walk(fn)):
            continue
        fn.body = do_block(fn.body)
    return count[0]


def transform(root: pathlib.Path, kinds: str) -> dict:
    stats = {'files': 0, 'renamed_locals': 0, 'hoisted_tests': 0}
    for p in sorted((root / 'tatsu').rglob('*.py')):
        if p.name in SKIP_FILES:
            continue
        src = p.read_text(encoding='utf-8')
        tree = ast.parse(src)
        if 'T1' in kinds:
            stats['renamed_locals'] += rename_locals(tree)
        if 'T2' in kinds:
            stats['hoisted_tests'] += hoist_tests(tree)
        ast.fix_missing_locations(tree)
        out = ast.unparse(tree)
        compile(out, str(p), 'exec')
        p.write_text(out + '\n', encoding='utf-8')
        stats['files'] += 1
    return stats


def main():
    args = sys.argv[1:]
    kinds = args.pop(0)
    baseline = '--baseline' in args
    args = [a for a in args if a != '--baseline']
    keep = None
    if '--keep' in args:
        i = args.index('--keep')
        keep = args[i + 1]
        del args[i:i + 2]
    props = args or PROPS
    t = pathlib.Path(keep) if keep else pathlib.Path(tempfile.mkdtemp(prefix='autotwin.'))
    if keep:
        shutil.rmtree(t, ignore_errors=True)
    try:
        subprocess.run(['git', '-C', '/repo', 'worktree', 'prune'], capture_output=True)
        shutil.copytree('/repo', t, dirs_exist_ok=True, symlinks=True, ignore=shutil.ignore_patterns('.git', '__pycache__', '*.pyc', '.pytest_cache', '.ruff_cache'))
        stats = transform(t, kinds)
        print(json.dumps(stats))
        bad = 0
        env = dict(os.environ, VERIF_REPO=str(t), VERIF_EVIDENCE_DIR=str(t / '_evidence'))
        for c in props:
            r = subprocess.run([str(V / 'vcheck'), c], env=env, capture_output=True, text=True)
            if r.returncode:
                bad += 1
                print(f'{c} exit={r.returncode}')
                for ln in r.stdout.splitlines():
                    if not ln.startswith(('KNOWN-FINDING', 'VIOLATION', 'OK ')):
                        print('   ', ln[:500])
        print(f'{len(props) - bad}/{len(props)} checks silent on {kinds}')
        if baseline:
            names = json.load(open('/root/.vp/BASELINE.json'))
            cmd = names.get('test_cmd') or names.get('command') or names.get('cmd')
            print('baseline cmd:', cmd)
            r = subprocess.run(cmd, shell=True, cwd=t, capture_output=True, text=True,
                               env=dict(os.environ, PYTHONPATH=str(t)))
            print(r.stdout[-600:])
        return 1 if bad else 0
    finally:
        if not keep:
            shutil.rmtree(t, ignore_errors=True)


sys.exit(main())
